"""effects2coq (C19): Python `ast` -> Coq effect term (SV.C19.EffectIR.eff).

Reads (from the repository root given on the command line / as argument):
  sleap_nn/training/model_trainer.py     ModelTrainer.__init__, .train and every
                                         `self._method()` they call (inlined)
  sleap_nn/training/lightning_modules.py TrainingModel.__init__ / on_save_checkpoint
  sleap_nn/config/*.py                   the attrs schema (is a mutated field declared?)

and emits `Definition generated : eff := ...` describing, in program order,
what happens to the live configuration `self.config` and which files receive
it.  Only the stdlib is used.  FAIL-CLOSED: any statement or call shape that
touches the live configuration (or could hand the key to a sink) and is not
recognised raises `Unsupported` with the source location; nothing is guessed.

Recognised fragment (everything else that mentions the configuration aborts):
  self.config = verify_training_cfg(config)            -> AReload
  <cfg>.trainer_config.wandb.api_key = ""              -> AMask   (through local aliases too)
  <cfg>.<path> = v  /  <cfg>[...]... = v               -> ASet path declared?
  OmegaConf.save(config=self.config, f=...)            -> AWrite file ctor
  OmegaConf.save(config=<masked copy>, f=...)          -> AWriteMasked file ctor
  X.experiment.config.update({... self.config ...})    -> AWrite FWandbRun
  N = ModelCheckpoint(save_top_k=<cfg>, save_last=<cfg>); L = [N] / [] ; L.Trainer(callbacks=L,
      enable_checkpointing=<c>)                        -> checkpoint guard  <c> and (not SaveTopKZero or SaveLast)
                                                          (Lightning: a top-k file unless save_top_k == 0, last.ckpt
                                                          iff save_last; the callback and enable_checkpointing must
                                                          be guarded by the same condition)
  self.trainer.fit(self.model, ...)                    -> [If <checkpoint guard> ckpt]; ACall 0
  XDataset(np_chunks=self.np_chunks, np_chunks_path=self.{train,val}_np_chunks_path,
           use_existing_chunks=self.use_existing_chunks)
                                                       -> If <self.np_chunks> (AMkChunks RmTrain / RmVal)
  subprocess.Popen([... "sleap_nn.training.get_bin_files" ... self.litdata_chunks_path ...])
                                                       -> AMkChunks RmLitTrain; AMkChunks RmLitVal
  XStreamingDataset(input_dir=self.{train,val}_litdata_chunks_path)
                                                       -> AMkChunks RmLitTrain / RmLitVal   (chunks are read)
  if A: X elif B: X ... else: raise   (A, B data-dependent, X the same effect in every branch)
                                                       -> (if A: pass elif B: pass ... else: raise); X
  try: X except E: ...; raise    (no finally, every handler re-raises)   -> X
  wandb.login(key=<the key>)                           -> ACall 1   (the only call that may receive the key)
  <cfg>.trainer_config.wandb.wandb_mode == "offline"   -> CFlag WandbOffline
  if total_cache_memory > available_memory: <re-definitions of self.data_pipeline_fw, chunk paths>
                                                       -> CFlag MemFallback; later tests of
                                                          self.data_pipeline_fw see the switched value
  [if P.exists():] shutil.rmtree(P...)                 -> ARm target
  raise ...                                            -> ARaise
  if / elif / else, for, try/except KeyboardInterrupt/finally, self._method() (inlined)
"""
from __future__ import annotations

import ast
import hashlib
import sys
from pathlib import Path

KEYPATH = ("trainer_config", "wandb", "api_key")

FLAG_BY_PATH = {
    ("trainer_config", "use_wandb"): "UseWandb",
    ("trainer_config", "save_ckpt"): "SaveCkpt",
    ("data_config", "delete_chunks_after_training"): "DeleteChunks",
    ("data_config", "use_existing_chunks"): "UseExisting",
}
FW_PATH = ("data_config", "data_pipeline_fw")
WANDB_MODE_PATH = ("trainer_config", "wandb", "wandb_mode")
RUN_ID_PATH = ("trainer_config", "wandb", "run_id")
RUN_ID_NO = 100          # EffectIR.run_id_path
CALL_FIT, CALL_LOGIN = 0, 1
CKPT_TOPK_PATH = ("trainer_config", "model_ckpt", "save_top_k")
CKPT_LAST_PATH = ("trainer_config", "model_ckpt", "save_last")
TRAINER_CTORS = ("L.Trainer", "lightning.Trainer", "Trainer", "pl.Trainer")
NP_CHUNK_ATTR = {"train_np_chunks_path": "RmTrain", "val_np_chunks_path": "RmVal"}
LIT_CHUNK_ATTR = {"train_litdata_chunks_path": "RmLitTrain", "val_litdata_chunks_path": "RmLitVal"}
FW_FLAG = {"torch_dataset": "FwTorch", "torch_dataset_np_chunks": "FwNpChunks", "litdata": "FwLitdata"}

# calls that may receive the whole live configuration without persisting it
PURE_CONFIG_READERS = {"OmegaConf.select", "OmegaConf.to_container", "isinstance", "len", "type",
                       "OmegaConf.to_yaml", "OmegaConf.is_missing"}


class Unsupported(Exception):
    def __init__(self, node, why):
        self.lineno = getattr(node, "lineno", "?")
        self.why = why
        super().__init__(why)


def dotted(node) -> str | None:
    """a.b.c for Name/Attribute chains, else None."""
    if isinstance(node, ast.Name):
        return node.id
    if isinstance(node, ast.Attribute):
        b = dotted(node.value)
        return None if b is None else b + "." + node.attr
    return None


# --------------------------------------------------------------------------
# attrs schema: is a path declared in the structured configuration?

class Schema:
    def __init__(self, cfg_dir: Path):
        self.classes: dict[str, dict[str, ast.expr]] = {}
        for f in sorted(cfg_dir.glob("*.py")):
            tree = ast.parse(f.read_text(), filename=str(f))
            for n in tree.body:
                if isinstance(n, ast.ClassDef) and any(
                        (dotted(d) or dotted(getattr(d, "func", None)) or "").split(".")[-1] in ("define", "s", "attrs")
                        for d in n.decorator_list):
                    fields = {}
                    for b in n.body:
                        if isinstance(b, ast.AnnAssign) and isinstance(b.target, ast.Name):
                            fields[b.target.id] = b.annotation
                    # attrs classes may inherit fields
                    fields["__bases__"] = [dotted(x) for x in n.bases]
                    self.classes[n.name] = fields

    def fields_of(self, cls: str) -> dict:
        out = {}
        f = self.classes.get(cls, {})
        for b in f.get("__bases__", []) or []:
            if b in self.classes:
                out.update(self.fields_of(b))
        out.update({k: v for k, v in f.items() if k != "__bases__"})
        return out

    def type_of(self, ann) -> str:
        """class name, or 'open' (dict / Any: any key below is accepted), or 'leaf'."""
        if isinstance(ann, ast.Subscript):
            head = (dotted(ann.value) or "").split(".")[-1]
            if head == "Optional":
                return self.type_of(ann.slice)
            if head in ("Dict", "dict", "DictConfig"):
                return "open"
            if head == "Union":
                elts = ann.slice.elts if isinstance(ann.slice, ast.Tuple) else [ann.slice]
                kinds = {self.type_of(e) for e in elts}
                return "open" if "open" in kinds else (kinds - {"leaf"}).pop() if kinds - {"leaf"} else "leaf"
            return "leaf"
        name = (dotted(ann) or "").split(".")[-1] if not isinstance(ann, ast.Constant) else str(ann.value)
        if name in self.classes:
            return name
        if name in ("dict", "Dict", "Any", "DictConfig"):
            return "open"
        return "leaf"

    def declared(self, path: tuple) -> tuple[bool, str]:
        """(declared?, how it was decided)."""
        cur = "TrainingJobConfig"
        if cur not in self.classes:
            raise Unsupported(None, "schema: TrainingJobConfig not found")
        for i, seg in enumerate(path):
            if cur == "open":
                return True, "below an untyped dict field"
            if cur == "leaf":
                return True, "below a leaf field (assumed)"
            if seg == "*":
                return True, "dynamic key (assumed declared; validated by the real runs)"
            fields = self.fields_of(cur)
            if seg not in fields:
                return False, f"`{seg}` is not a field of {cur}"
            cur = self.type_of(fields[seg])
        return True, "declared"


# --------------------------------------------------------------------------
# IR (python side)

def seq(items):
    flat = []
    for it in items:
        if it[0] == "skip":
            continue
        if it[0] == "seq":
            flat.extend(it[1])
        else:
            flat.append(it)
    if not flat:
        return ("skip",)
    if len(flat) == 1:
        return flat[0]
    return ("seq", flat)


def mk_if(c, th, el):
    if th[0] == "skip" and el[0] == "skip":
        return ("skip",)
    return ("if", c, th, el)


def has_effect(ir) -> bool:
    return ir[0] != "skip"


def pp_cond(c) -> str:
    k = c[0]
    if k in ("CTrue", "CFalse"):
        return k
    if k == "flag":
        return f"CFlag {c[1]}"
    if k == "opaque":
        return f"COpaque {c[1]}"
    if k == "not":
        return f"CNot ({pp_cond(c[1])})"
    if k in ("and", "or"):
        return f"{'CAnd' if k == 'and' else 'COr'} ({pp_cond(c[1])}) ({pp_cond(c[2])})"
    raise ValueError(c)


def san(txt: str) -> str:
    """text safe inside a Coq comment."""
    return txt.replace("(*", "( *").replace("*)", "* )").replace('"', "'")


def pp(ir, ind=2) -> str:
    sp = " " * ind
    k = ir[0]
    if k == "skip":
        return sp + "Skip"
    if k == "do":
        return sp + (f"(* {san(ir[2])} *) " if len(ir) > 2 and ir[2] else "") + f"Do ({ir[1]})"
    if k == "seq":
        return sp + "block [\n" + ";\n".join(pp(x, ind + 2) for x in ir[1]) + "\n" + sp + "]"
    if k == "if":
        return sp + f"If ({pp_cond(ir[1])})\n" + pp_paren(ir[2], ind + 2) + "\n" + pp_paren(ir[3], ind + 2)
    if k == "loop":
        return sp + f"Loop {ir[1]}\n" + pp_paren(ir[2], ind + 2)
    if k == "try":
        return (sp + "Try\n" + pp_paren(ir[1], ind + 2) + "\n" + " " * (ind + 2) + ("true" if ir[2] else "false")
                + "\n" + pp_paren(ir[3], ind + 2))
    raise ValueError(ir)


def pp_paren(ir, ind):
    s = pp(ir, ind)
    if ir[0] == "skip":
        return s
    stripped = s.lstrip(" ")
    return " " * (len(s) - len(stripped)) + "(" + stripped + ")"


# --------------------------------------------------------------------------
# translator

class Translator:
    def __init__(self, repo: Path):
        self.repo = Path(repo)
        self.src_trainer = self.repo / "sleap_nn/training/model_trainer.py"
        self.src_lm = self.repo / "sleap_nn/training/lightning_modules.py"
        self.schema = Schema(self.repo / "sleap_nn/config")
        self.paths: list[tuple] = []          # ASet path table
        self.path_notes: dict[int, str] = {}
        self.n_opaque = 0
        self.n_loop = 0
        self.n_call = 0
        self.opaque_src: dict[int, str] = {}
        self.notes: list[str] = []
        self.assumptions: list[str] = []
        self.ckpt_guard = None
        self.model_captures_live = False
        self.ckpt_atom = None
        self.cond_stack: list = []            # path condition (if-tests enclosing the current statement)
        self.fw_override = None               # (guard cond, new framework value) after the memory fallback
        self.n_fit = 0
        self.ctor_param = None
        self.ckpt_cb = None                   # the ModelCheckpoint(...) construction: {"line", "stack", "writes", "name"}
        self.n_trainer = 0
        self.raise_sites: list[dict] = []     # explicit `raise` statements with their path conditions
        self.in_handler = 0
        self.mk_sites: list[str] = []
        # round 5: symbolic value of every name / self attribute that holds a steps-per-epoch expression
        self.steps_attr: dict[str, tuple] = {}
        self.loader_sites: list[str] = []
        self.in_steps_if = 0
        self.cur_target = None

    # ---- lightning module ------------------------------------------------
    def analyse_lightning_module(self):
        tree = ast.parse(self.src_lm.read_text(), filename=str(self.src_lm))
        hooks = []
        for cls in [n for n in tree.body if isinstance(n, ast.ClassDef)]:
            for fn in [b for b in cls.body if isinstance(b, ast.FunctionDef)]:
                if fn.name == "on_save_checkpoint":
                    hooks.append((cls, fn))
        if len(hooks) != 1 or hooks[0][0].name != "TrainingModel":
            raise Unsupported(hooks[0][1] if hooks else None,
                              "expected exactly one on_save_checkpoint, in TrainingModel "
                              f"(found in {[c.name for c, _ in hooks]})")
        cls, fn = hooks[0]
        # TrainingModel.__init__ must keep the configuration by reference
        init = next((b for b in cls.body if isinstance(b, ast.FunctionDef) and b.name == "__init__"), None)
        if init is None:
            raise Unsupported(cls, "TrainingModel.__init__ not found")
        by_ref = False
        for st in ast.walk(init):
            if isinstance(st, ast.Assign) and any(dotted(t) == "self.config" for t in st.targets):
                if isinstance(st.value, ast.Name) and st.value.id == "config":
                    by_ref = True
                else:
                    raise Unsupported(st, "TrainingModel.__init__: self.config is not the `config` argument itself")
        if not by_ref:
            raise Unsupported(init, "TrainingModel.__init__ does not store `config`")
        # sub-classes must hand their `config` argument through unchanged
        for c2 in [n for n in tree.body if isinstance(n, ast.ClassDef) and n is not cls]:
            for st in ast.walk(c2):
                if isinstance(st, ast.Assign) and any(dotted(t) == "self.config" for t in st.targets):
                    raise Unsupported(st, f"{c2.name} reassigns self.config")
        body = [s for s in fn.body
                if not (isinstance(s, ast.Expr) and isinstance(s.value, ast.Constant) and isinstance(s.value.value, str))]
        arg = fn.args.args[1].arg if len(fn.args.args) > 1 else "checkpoint"
        stored = self._stored_config(body, arg, fn)
        self.ckpt_atom = "AWrite FCkpt false" if stored == "live" else "AWriteMasked FCkpt false"
        self.notes.append(f"on_save_checkpoint stores the {stored} configuration "
                          f"(lightning_modules.py:{fn.lineno})")

    def _stored_config(self, body, arg, fn) -> str:
        """'live' or 'masked' — what checkpoint["config"] receives."""
        copies: dict[str, bool] = {}      # local name -> masked?
        result = None
        for st in body:
            if isinstance(st, ast.Assign) and len(st.targets) == 1:
                t, v = st.targets[0], st.value
                if isinstance(t, ast.Name) and self._is_copy_of_self_config(v):
                    copies[t.id] = False
                    continue
                if (isinstance(t, ast.Attribute) and dotted(t) is not None
                        and dotted(t).split(".")[0] in copies
                        and tuple(dotted(t).split(".")[1:]) == KEYPATH
                        and isinstance(v, ast.Constant) and v.value == ""):
                    copies[dotted(t).split(".")[0]] = True
                    continue
                if (isinstance(t, ast.Subscript) and isinstance(t.value, ast.Name) and t.value.id == arg
                        and isinstance(t.slice, ast.Constant) and t.slice.value == "config"):
                    if dotted(v) == "self.config":
                        result = "live"
                    elif isinstance(v, ast.Name) and copies.get(v.id) is True:
                        result = "masked"
                    else:
                        raise Unsupported(st, "on_save_checkpoint stores an unrecognised object as the config")
                    continue
            raise Unsupported(st, "on_save_checkpoint: statement outside the recognised fragment")
        if result is None:
            raise Unsupported(fn, 'on_save_checkpoint does not set checkpoint["config"] '
                                  "(artifact contract: the checkpoint carries the configuration)")
        return result

    @staticmethod
    def _is_copy_of_self_config(v) -> bool:
        if isinstance(v, ast.Call):
            f = dotted(v.func)
            if f == "self.config.copy" and not v.args:
                return True
            if f in ("copy.deepcopy", "deepcopy") and len(v.args) == 1 and dotted(v.args[0]) == "self.config":
                return True
            if f == "OmegaConf.create" and len(v.args) == 1 and isinstance(v.args[0], ast.Call) \
                    and dotted(v.args[0].func) == "OmegaConf.to_container" and v.args[0].args \
                    and dotted(v.args[0].args[0]) == "self.config":
                return True
        return False

    # ---- trainer ------------------------------------------------------------
    def translate(self):
        self.analyse_lightning_module()
        tree = ast.parse(self.src_trainer.read_text(), filename=str(self.src_trainer))
        cls = next((n for n in tree.body if isinstance(n, ast.ClassDef) and n.name == "ModelTrainer"), None)
        if cls is None:
            raise Unsupported(None, "class ModelTrainer not found")
        self.methods = {b.name: b for b in cls.body if isinstance(b, ast.FunctionDef)}
        for need in ("__init__", "train"):
            if need not in self.methods:
                raise Unsupported(cls, f"ModelTrainer.{need} not found")
        self.attr_alias: dict[str, tuple] = {}     # self.X = <cfg path>  (set in __init__)
        self.attr_defs: dict[str, list] = {}       # self.X = <expr>
        self.masked_helpers = self._find_masked_helpers()
        ctor = self.function(self.methods["__init__"], ctor=True, stack=("__init__",))
        train = self.function(self.methods["train"], ctor=False, stack=("train",))
        self._check_rm_targets()
        return seq([ctor, train])

    def _find_masked_helpers(self):
        """methods of the form  c = <copy of self.config>; c.trainer_config.wandb.api_key = ""; return c"""
        out = set()
        for name, fn in self.methods.items():
            body = [s for s in fn.body
                    if not (isinstance(s, ast.Expr) and isinstance(s.value, ast.Constant))]
            if len(body) == 3 and isinstance(body[0], ast.Assign) and isinstance(body[0].targets[0], ast.Name) \
                    and self._is_copy_of_self_config(body[0].value):
                v = body[0].targets[0].id
                m = body[1]
                if isinstance(m, ast.Assign) and dotted(m.targets[0]) == v + "." + ".".join(KEYPATH) \
                        and isinstance(m.value, ast.Constant) and m.value.value == "" \
                        and isinstance(body[2], ast.Return) and isinstance(body[2].value, ast.Name) \
                        and body[2].value.id == v:
                    out.add(name)
        return out

    def _check_rm_targets(self):
        want = {"train_np_chunks_path": "train_chunks", "val_np_chunks_path": "val_chunks",
                "train_litdata_chunks_path": "train_chunks", "val_litdata_chunks_path": "val_chunks"}
        for attr, leaf in want.items():
            defs = self.attr_defs.get(attr, [])
            if not defs:
                raise Unsupported(None, f"self.{attr} is never defined in __init__")
            for d in defs:
                if leaf not in ast.dump(d):
                    # the memory-fallback redefinition is handled (dropped) elsewhere
                    raise Unsupported(d, f"self.{attr} does not end in `{leaf}`")

    # a function body in a fresh local scope
    def function(self, fn: ast.FunctionDef, ctor: bool, stack: tuple):
        scope = {"alias": {}, "defs": {}, "copies": {}, "rank": set(), "ctor": ctor, "stack": stack, "fn": fn,
                 "steps": {}, "depth0": len(self.cond_stack)}
        return self.block(fn.body, scope, top=True)

    def block(self, stmts, scope, top=False):
        out = []
        for i, st in enumerate(stmts):
            last = top and i == len(stmts) - 1
            out.append(self.stmt(st, scope, stmts, last))
        return seq(out)

    # ---- configuration paths --------------------------------------------------
    def cfg_path(self, node, scope):
        """path (tuple of segments, '*' = dynamic) if `node` denotes the live config or a part of it."""
        if isinstance(node, ast.Name):
            return scope["alias"].get(node.id)
        if isinstance(node, ast.Attribute):
            if dotted(node) == "self.config":
                return ()
            base = self.cfg_path(node.value, scope)
            if base is not None:
                return base + (node.attr,)
            if isinstance(node.value, ast.Name) and node.value.id == "self" and node.attr in self.attr_alias \
                    and self.attr_alias[node.attr] is not None and self._is_container_path(self.attr_alias[node.attr]):
                return self.attr_alias[node.attr]
            return None
        if isinstance(node, ast.Subscript):
            base = self.cfg_path(node.value, scope)
            if base is None:
                return None
            s = node.slice
            if isinstance(s, ast.Constant) and isinstance(s.value, str):
                return base + (s.value,)
            return base + ("*",)
        return None

    @staticmethod
    def _is_container_path(p):      # self.X aliases of scalar leaves are values, not references
        return False

    @staticmethod
    def exposes_key(path) -> bool:
        """does the object at `path` contain (or equal) the api key?"""
        if len(path) > len(KEYPATH):
            return False
        return all(a == b or a == "*" for a, b in zip(path, KEYPATH))

    def path_id(self, path) -> int:
        if tuple(path) == RUN_ID_PATH:
            self.run_id_seen = True
            return RUN_ID_NO
        if path not in self.paths:
            self.paths.append(path)
        if len(self.paths) >= RUN_ID_NO:
            raise Unsupported(None, "too many distinct mutation paths")
        return self.paths.index(path)

    # ---- expressions: effectful calls ---------------------------------------
    def exposures(self, node, scope):
        """sub-expressions of `node` that denote the key-bearing live configuration."""
        out = []

        def walk(n):
            p = self.cfg_path(n, scope) if isinstance(n, (ast.Name, ast.Attribute, ast.Subscript)) else None
            if p is not None:
                if self.exposes_key(p):
                    out.append((n, p))
                return                      # do not descend into the chain itself
            if isinstance(n, ast.Name) and n.id == "self":
                out.append((n, ("<self>",)))
                return
            if isinstance(n, ast.Call):
                fn = n.func
                if isinstance(fn, ast.Attribute):
                    d = dotted(fn)
                    if d is None or not d.startswith("self."):
                        rp = self.cfg_path(fn.value, scope)
                        if rp is None:
                            walk(fn.value)      # receiver expression
                        elif self.exposes_key(rp) and fn.attr not in ("items", "keys", "values", "get"):
                            out.append((fn.value, rp))
                elif not isinstance(fn, ast.Name):
                    walk(fn)
                for a in list(n.args) + [k.value for k in n.keywords]:
                    walk(a)
                return
            if isinstance(n, ast.Attribute) and dotted(n) in ("self.model", "self.trainer"):
                out.append((n, ("<" + dotted(n) + ">",)))
                return
            if isinstance(n, ast.Attribute):
                # self.X / a.b : reading an attribute of self is not passing self — unless X is the
                # stash of the key (self._wandb_api_key = <cfg>.trainer_config.wandb.api_key)
                if isinstance(n.value, ast.Name) and n.value.id == "self":
                    ap = self.attr_alias.get(n.attr)
                    if ap is not None and self.exposes_key(ap):
                        out.append((n, ("<stashed key>",)))
                    return
                walk(n.value)
                return
            if isinstance(n, ast.Name) and n.id in scope["copies"]:
                out.append((n, ("<copy>",)))
                return
            for c in ast.iter_child_nodes(n):
                walk(c)
        walk(node)
        return out

    def call_effects(self, node, scope):
        """effects of all calls inside expression `node`, in source order."""
        effs = []
        calls = [n for n in ast.walk(node) if isinstance(n, ast.Call)]
        calls.sort(key=lambda c: (c.lineno, c.col_offset))
        handled_inner = set()
        for c in calls:
            if id(c) in handled_inner:
                continue
            f = dotted(c.func)
            if f == "OmegaConf.save":
                effs.append(self.save(c, scope))
                for x in ast.walk(c):
                    handled_inner.add(id(x))
                continue
            if f == "shutil.rmtree":
                effs.append(self.rm(c, scope))
                for x in ast.walk(c):
                    handled_inner.add(id(x))
                continue
            if f == "self.trainer.fit":
                effs.append(self.fit(c, scope))
                for x in ast.walk(c):
                    handled_inner.add(id(x))
                continue
            if f is not None and f.startswith("self.") and f.count(".") == 1 and f[5:] in self.methods:
                name = f[5:]
                if name in self.masked_helpers:
                    continue                  # pure: returns a masked copy (used as a save argument)
                if name in scope["stack"]:
                    raise Unsupported(c, f"recursive call of self.{name}")
                for a in list(c.args) + [k.value for k in c.keywords]:
                    if self.exposures(a, scope):
                        raise Unsupported(c, f"self.{name}(...) receives the live configuration as an argument")
                effs.append(self.function(self.methods[name], ctor=scope["ctor"], stack=scope["stack"] + (name,)))
                continue
            if f is not None and f in scope.get("localfuncs", {}):
                if c.args or c.keywords:
                    raise Unsupported(c, "local function called with arguments")
                if ("local:" + f) in scope["stack"]:
                    raise Unsupported(c, f"recursive local function {f}")
                sub = dict(scope)
                sub["stack"] = scope["stack"] + ("local:" + f,)
                effs.append(self.block(scope["localfuncs"][f].body, sub, top=True))
                continue
            if f == "verify_training_cfg":
                continue                      # handled by the enclosing assignment to self.config
            if f == "wandb.login":
                # the one legitimate consumer of the key; it must get nothing but the key
                kw = {k.arg: k.value for k in c.keywords}
                others = list(c.args) + [v for k_, v in kw.items() if k_ != "key"]
                if any(self.exposures(a, scope) for a in others):
                    raise Unsupported(c, "wandb.login receives the configuration outside `key=`")
                kp = kw.get("key")
                if kp is not None and self.cfg_path(kp, scope) not in (None, KEYPATH):
                    raise Unsupported(c, "wandb.login(key=...) receives a configuration node, not the key")
                effs.append(("do", f"ACall {CALL_LOGIN}", f"wandb.login (line {c.lineno})"))
                for x in ast.walk(c):
                    handled_inner.add(id(x))
                continue
            if f is not None and f.split(".")[-1] == "ModelCheckpoint":
                self.model_checkpoint(c, scope)
                continue
            if f in TRAINER_CTORS:
                self.trainer_ctor(c, scope)
                continue
            if f is not None and f.split(".")[-1].endswith("DataLoader"):
                effs.append(self.loader_ctor(c, f, scope))
                continue
            mk = self.chunk_effects(c, f, scope)
            if mk is not None:
                effs.append(mk)
                continue
            # a tracked callbacks list may only grow
            if isinstance(c.func, ast.Attribute) and isinstance(c.func.value, ast.Name) \
                    and c.func.value.id in scope.get("listdefs", {}) and c.func.attr != "append":
                raise Unsupported(c, f"list `{c.func.value.id}` (callbacks) is modified by .{c.func.attr}()")
            # any other call: does it receive the key-bearing configuration?
            args = list(c.args) + [k.value for k in c.keywords]
            exp = [e for a in args for e in self.exposures(a, scope)]
            # method call ON the configuration (self.config.copy(), cfg.items(), ...)
            recv = c.func.value if isinstance(c.func, ast.Attribute) else None
            recv_path = self.cfg_path(recv, scope) if recv is not None else None
            if not exp:
                if recv_path is not None and self.exposes_key(recv_path) and \
                        c.func.attr not in ("items", "keys", "values", "get", "copy"):
                    raise Unsupported(c, f"method `{c.func.attr}` called on the key-bearing configuration")
                continue
            if f in PURE_CONFIG_READERS:
                continue
            if f is not None and f.endswith(".experiment.config.update"):
                effs.append(("do", "AWrite FWandbRun false" if any(p != ("<copy>",) for _, p in exp)
                             else "AWriteMasked FWandbRun false",
                             f"wandb run config <- live configuration (line {c.lineno})"))
                for x in ast.walk(c):
                    handled_inner.add(id(x))
                continue
            if isinstance(c.func, ast.Subscript) and dotted(c.func.value) == "models":
                kw = {k.arg: k.value for k in c.keywords}
                if dotted(kw.get("config")) != "self.config" or len(exp) != 1:
                    raise Unsupported(c, "the lightning module is not constructed with config=self.config")
                self.model_captures_live = True
                continue
            raise Unsupported(c, f"the key-bearing live configuration is passed to an unrecognised call "
                                 f"`{f or ast.dump(c.func)[:60]}`")
        return effs

    # ---- Lightning's ModelCheckpoint / Trainer -----------------------------------------
    @staticmethod
    def _c_and(a, b):
        if a == ("CFalse",) or b == ("CFalse",):
            return ("CFalse",)
        if a == ("CTrue",):
            return b
        if b == ("CTrue",):
            return a
        return ("and", a, b)

    @staticmethod
    def _c_or(a, b):
        if a == ("CTrue",) or b == ("CTrue",):
            return ("CTrue",)
        if a == ("CFalse",):
            return b
        if b == ("CFalse",):
            return a
        return ("or", a, b)

    def model_checkpoint(self, c: ast.Call, scope):
        """ModelCheckpoint(save_top_k=..., save_last=...): under which condition does it write a file during fit?
        Lightning's contract (model_checkpoint.py: `_save_topk_checkpoint` returns at once when save_top_k == 0,
        `_save_last_checkpoint` when not save_last): a top-k file iff save_top_k != 0, last.ckpt iff save_last."""
        if self.ckpt_cb is not None:
            raise Unsupported(c, "more than one ModelCheckpoint(...) construction")
        if c.args:
            raise Unsupported(c, "ModelCheckpoint with positional arguments")
        kw = {k.arg: k.value for k in c.keywords}
        if None in kw:
            raise Unsupported(c, "ModelCheckpoint(**kwargs)")

        def opt(name, path, default, from_const, from_cfg):
            v = kw.get(name)
            if v is None:
                return from_const(default)
            if isinstance(v, ast.Constant):
                return from_const(v.value)
            if isinstance(v, ast.UnaryOp) and isinstance(v.op, ast.USub) and isinstance(v.operand, ast.Constant):
                return from_const(-v.operand.value)
            if self.flag_source(v, scope) == path:
                return from_cfg
            raise Unsupported(v, f"ModelCheckpoint({name}=...) is neither a constant nor the configured "
                                 f"{'.'.join(path)}")
        b = lambda x: ("CTrue",) if x else ("CFalse",)
        topk = opt("save_top_k", CKPT_TOPK_PATH, 1, lambda x: b(x != 0), ("not", ("flag", "SaveTopKZero")))
        last = opt("save_last", CKPT_LAST_PATH, None, lambda x: b(bool(x)), ("flag", "SaveLast"))
        for name in ("every_n_train_steps", "every_n_epochs", "train_time_interval", "save_on_train_epoch_end"):
            if name in kw:
                raise Unsupported(kw[name], f"ModelCheckpoint({name}=...): the moments at which it saves are changed")
        self.ckpt_cb = {"line": c.lineno, "stack": list(self.cond_stack), "writes": self._c_or(topk, last),
                        "name": None}
        self.notes.append(f"line {c.lineno}: ModelCheckpoint writes a file during fit iff "
                          f"{pp_cond(self.ckpt_cb['writes'])}")

    def trainer_ctor(self, c: ast.Call, scope):
        self.n_trainer += 1
        if self.n_trainer > 1:
            raise Unsupported(c, "more than one Trainer(...) construction")
        if self.n_fit:
            raise Unsupported(c, "Trainer(...) constructed after fit")
        kw = {k.arg: k.value for k in c.keywords}
        if c.args or None in kw:
            raise Unsupported(c, "Trainer(...) with positional / ** arguments")
        en = self.cond(kw.get("enable_checkpointing", ast.Constant(value=True)), scope)
        cbs = kw.get("callbacks")
        has_cb = ("CFalse",)
        if self.ckpt_cb is not None:
            cb = self.ckpt_cb
            if cb["name"] is None or not isinstance(cbs, ast.Name):
                raise Unsupported(c, "the ModelCheckpoint callback does not reach Trainer(callbacks=<local list>)")
            entries = scope.get("listdefs", {}).get(cbs.id, [])
            if len(entries) != len(scope["defs"].get(cbs.id, [])) or not entries:
                raise Unsupported(c, f"`{cbs.id}` is bound to something other than list displays")
            s1 = cb["stack"]
            other = (s1[:-1] + [("not", s1[-1])]) if s1 else None
            n_with = 0
            for val, stack in entries:
                names = [e.id if isinstance(e, ast.Name) else None for e in val.elts]
                if names == [cb["name"]] and stack == s1:
                    n_with += 1
                elif not val.elts and other is not None and stack == other:
                    pass
                else:
                    raise Unsupported(val, f"`{cbs.id}` = {ast.unparse(val)}: not `[<the ModelCheckpoint>]` under its "
                                           "own condition / `[]` in the opposite branch")
            if n_with != 1:
                raise Unsupported(c, "the ModelCheckpoint callback is not put into the callbacks list exactly once")
            has_cb = ("CTrue",)
            for g in reversed(s1):
                has_cb = self._c_and(g, has_cb)
        elif cbs is not None and "ModelCheckpoint" in ast.dump(cbs):
            raise Unsupported(c, "ModelCheckpoint constructed inside Trainer(callbacks=...)")
        if has_cb != en:
            # enable_checkpointing without the callback: Lightning adds its default ModelCheckpoint (another
            # directory, other options); the callback without enable_checkpointing: MisconfigurationException
            raise Unsupported(c, f"enable_checkpointing ({pp_cond(en)}) and the ModelCheckpoint callback "
                                 f"({pp_cond(has_cb)}) are not guarded by the same condition")
        writes = self.ckpt_cb["writes"] if self.ckpt_cb is not None else ("CFalse",)
        self.ckpt_guard = self._c_and(en, writes)
        self.notes.append(f"line {c.lineno}: checkpoints are written during fit iff {pp_cond(self.ckpt_guard)}")

    # ---- data loaders and their steps per epoch (round 5) ---------------------------------
    @staticmethod
    def _self_attr(n):
        return n.attr if (isinstance(n, ast.Attribute) and isinstance(n.value, ast.Name) and n.value.id == "self") else None

    def _steps_get(self, node, scope):
        if isinstance(node, ast.Name):
            return scope["steps"].get(node.id)
        a = self._self_attr(node)
        return self.steps_attr.get(a) if a is not None else None

    def _steps_set(self, node, scope, val):
        if isinstance(node, ast.Name):
            scope["steps"][node.id] = val
        else:
            self.steps_attr[self._self_attr(node)] = val

    @staticmethod
    def _pos_const(n):
        return isinstance(n, ast.Constant) and type(n.value) is int and n.value >= 1

    def steps_of(self, node, scope):
        """symbolic steps-per-epoch value of an expression, None when it is not one"""
        if node is None:
            return None
        got = self._steps_get(node, scope) if isinstance(node, (ast.Name, ast.Attribute)) else None
        if got is not None:
            return got
        if isinstance(node, ast.Attribute) and self.cfg_path(node, scope) == ("trainer_config", "steps_per_epoch"):
            return ("StConfig",)
        if isinstance(node, ast.BinOp) and isinstance(node.op, ast.FloorDiv) and isinstance(node.left, ast.Call) \
                and dotted(node.left.func) == "len":
            return ("StFloorDiv",)
        if isinstance(node, ast.IfExp) and isinstance(node.test, ast.Compare) and len(node.test.ops) == 1 \
                and isinstance(node.test.comparators[0], ast.Constant) and node.test.comparators[0].value == 0:
            a, op = node.test.left, node.test.ops[0]
            same = lambda x: ast.dump(x) == ast.dump(a)
            inner = self.steps_of(a, scope)
            if inner is not None:
                if isinstance(op, (ast.NotEq, ast.Gt)) and same(node.body) and self._pos_const(node.orelse):
                    return ("StAtLeast1", inner)
                if isinstance(op, ast.Eq) and same(node.orelse) and self._pos_const(node.body):
                    return ("StAtLeast1", inner)
            return None
        if isinstance(node, ast.Call) and dotted(node.func) == "max" and len(node.args) == 2 and not node.keywords:
            for k, o in ((node.args[0], node.args[1]), (node.args[1], node.args[0])):
                if self._pos_const(k) and self.steps_of(o, scope) is not None:
                    return ("StAtLeast1", self.steps_of(o, scope))
            return None
        if isinstance(node, ast.Constant) and type(node.value) is int and node.value >= 0:
            return ("StConst", node.value)
        return None

    @staticmethod
    def pp_steps(s) -> str:
        if s[0] == "StConst":
            return f"(StConst {s[1]})"
        if s[0] == "StAtLeast1":
            return f"(StAtLeast1 {Translator.pp_steps(s[1])})"
        if s[0] == "StIfNone":
            return f"(StIfNone {Translator.pp_steps(s[1])} {Translator.pp_steps(s[2])})"
        return s[0]

    def steps_assign(self, st, target, value, scope):
        """an assignment whose target holds (or starts to hold) a steps-per-epoch value"""
        new = self.steps_of(value, scope) if value is not None else None
        tracked = self._steps_get(target, scope) is not None
        if new is None and not tracked:
            return
        if self.in_steps_if:
            return                             # accounted for by steps_if
        if isinstance(st, ast.AugAssign) or new is None:
            raise Unsupported(st, "a steps-per-epoch value is re-assigned something that is not a recognised "
                                  "steps expression")
        if len(self.cond_stack) != scope.get("depth0", 0):
            raise Unsupported(st, "a steps-per-epoch value is assigned under a condition other than the recognised "
                                  "`if X is None:` / `if X == 0:` guards")
        self._steps_set(target, scope, new)

    def steps_if(self, st: ast.If, scope) -> bool:
        """`if X is None: X = <steps>; [if X == 0: X = 1]`  and  `if X == 0: X = 1`  for a tracked X: updates the
        symbolic value; True when the statement is such a guard (its body is then not re-interpreted)"""
        t = st.test
        if self.in_steps_if:
            return False                        # inside a recognised guard: already accounted for
        if not (isinstance(t, ast.Compare) and len(t.ops) == 1 and isinstance(t.comparators[0], ast.Constant)):
            return False
        x = t.left
        cur = self._steps_get(x, scope) if isinstance(x, (ast.Name, ast.Attribute)) else None
        if cur is None:
            return False
        is_x = lambda n: isinstance(n, (ast.Name, ast.Attribute)) and ast.unparse(n) == ast.unparse(x)

        def floor_guard(node):      # if X == 0: X = <k >= 1>
            return (isinstance(node, ast.If) and not node.orelse and isinstance(node.test, ast.Compare)
                    and is_x(node.test.left) and len(node.test.ops) == 1 and isinstance(node.test.ops[0], ast.Eq)
                    and isinstance(node.test.comparators[0], ast.Constant) and node.test.comparators[0].value == 0
                    and len(node.body) == 1 and isinstance(node.body[0], ast.Assign) and len(node.body[0].targets) == 1
                    and is_x(node.body[0].targets[0]) and self._pos_const(node.body[0].value))
        if len(self.cond_stack) != scope.get("depth0", 0) or st.orelse:
            raise Unsupported(st, "a steps-per-epoch guard with an else branch / under another condition")
        if floor_guard(st):
            self._steps_set(x, scope, ("StAtLeast1", cur))
            return True
        if isinstance(t.ops[0], ast.Is) and t.comparators[0].value is None:
            val = None
            for b in st.body:
                if isinstance(b, ast.Assign) and len(b.targets) == 1 and is_x(b.targets[0]):
                    # the right-hand side must not refer to X itself
                    val = self.steps_of(b.value, scope)
                    if val is None or any(is_x(n) for n in ast.walk(b.value)):
                        raise Unsupported(b, "unrecognised default of a steps-per-epoch value")
                elif floor_guard(b) and val is not None:
                    val = ("StAtLeast1", val)
                else:
                    raise Unsupported(b, "unrecognised statement in the default block of a steps-per-epoch value")
            if val is None:
                raise Unsupported(st, "`if X is None:` without a default for the steps-per-epoch value X")
            self._steps_set(x, scope, ("StIfNone", cur, val))
            return True
        raise Unsupported(st, "a steps-per-epoch value is tested in an unrecognised way")

    def loader_ctor(self, c: ast.Call, f, scope):
        """`self.train_data_loader / self.val_data_loader = <...>DataLoader(..., steps_per_epoch=<steps>)`"""
        kind = {"self.train_data_loader": "LTrain", "self.val_data_loader": "LVal"}.get(self.cur_target)
        if kind is None:
            raise Unsupported(c, f"a data loader is built outside `self.train_data_loader = ` / `self.val_data_loader = `")
        kw = {k.arg: k.value for k in c.keywords}
        if None in kw:
            raise Unsupported(c, "a data loader is built with ** arguments")
        if "steps_per_epoch" in kw:
            s = self.steps_of(kw["steps_per_epoch"], scope)
            if s is None:
                raise Unsupported(c, "steps_per_epoch of a data loader is not a recognised steps expression: "
                                     + ast.unparse(kw["steps_per_epoch"])[:80])
        else:
            s = ("StDefault",)
        self.loader_sites.append(f"line {c.lineno}: {f} -> {kind} {self.pp_steps(s)}")
        return ("do", f"ALoader {kind} {self.pp_steps(s)}", f"{f} (line {c.lineno})")

    # ---- chunk files: created / read ----------------------------------------------------
    def np_chunks_cond(self, node):
        """`self.np_chunks`, defined in __init__ as  True if "np_chunks" in self.data_pipeline_fw else False"""
        defs = self.attr_defs.get("np_chunks", [])
        want = 'True if "np_chunks" in self.data_pipeline_fw else False'
        if len(defs) != 1 or ast.dump(defs[0]) != ast.dump(ast.parse(want, mode="eval").body):
            raise Unsupported(node, "self.np_chunks is not defined as `" + want + "`")
        return self.fw_is("torch_dataset_np_chunks", True)

    def chunk_effects(self, c: ast.Call, f, scope):
        kw = {k.arg: k.value for k in c.keywords}
        self_attr = lambda n: n.attr if (isinstance(n, ast.Attribute) and isinstance(n.value, ast.Name)
                                         and n.value.id == "self") else None
        if "np_chunks_path" in kw:
            t = NP_CHUNK_ATTR.get(self_attr(kw["np_chunks_path"]))
            if t is None or self_attr(kw.get("np_chunks")) != "np_chunks" \
                    or self.flag_source(kw.get("use_existing_chunks"), scope) != ("data_config", "use_existing_chunks"):
                raise Unsupported(c, "a dataset is constructed with np_chunks_path / np_chunks / use_existing_chunks "
                                     "other than the trainer's attributes")
            self.mk_sites.append(f"line {c.lineno}: {f} -> {t}")
            return mk_if(self.np_chunks_cond(c), ("do", f"AMkChunks {t}", f"{f} writes / reads npz chunks (line {c.lineno})"),
                         ("skip",))
        if "input_dir" in kw:
            t = LIT_CHUNK_ATTR.get(self_attr(kw["input_dir"]))
            if t is None:
                if "chunks_path" in ast.dump(kw["input_dir"]):
                    raise Unsupported(c, "a streaming dataset reads an unrecognised chunk directory")
                return None
            self.mk_sites.append(f"line {c.lineno}: {f} -> {t}")
            return ("do", f"AMkChunks {t}", f"{f} reads litdata chunks (line {c.lineno})")
        if any(isinstance(n, ast.Constant) and isinstance(n.value, str) and "get_bin_files" in n.value
               for a in c.args for n in ast.walk(a)):
            if f not in ("subprocess.Popen", "subprocess.run", "subprocess.check_call", "subprocess.check_output"):
                raise Unsupported(c, "get_bin_files is started by an unrecognised call")
            if "attr='litdata_chunks_path'" not in ast.dump(c):
                raise Unsupported(c, "get_bin_files does not write into self.litdata_chunks_path")
            self.mk_sites.append(f"line {c.lineno}: get_bin_files subprocess -> RmLitTrain, RmLitVal")
            return seq([("do", f"AMkChunks {t}", f"get_bin_files subprocess (line {c.lineno})")
                        for t in ("RmLitTrain", "RmLitVal")])
        return None

    def save(self, c: ast.Call, scope):
        kw = {k.arg: k.value for k in c.keywords}
        cfg = kw.get("config", c.args[0] if c.args else None)
        f = kw.get("f", c.args[1] if len(c.args) > 1 else None)
        if cfg is None or f is None:
            raise Unsupported(c, "OmegaConf.save without config/f")
        file = self.classify_file(f, scope, c)
        ctor = "true" if scope["ctor"] else "false"
        if self.cfg_path(cfg, scope) == ():
            return ("do", f"AWrite {file} {ctor}", f"line {c.lineno}")
        masked = False
        if isinstance(cfg, ast.Name) and scope["copies"].get(cfg.id, {}).get("masked"):
            masked = True
        if isinstance(cfg, ast.Call) and (dotted(cfg.func) or "").startswith("self.") \
                and dotted(cfg.func)[5:] in self.masked_helpers:
            masked = True
        if masked:
            return ("do", f"AWriteMasked {file} {ctor}", f"line {c.lineno}")
        raise Unsupported(c, "OmegaConf.save of something that is neither self.config nor a recognised masked copy")

    def classify_file(self, f, scope, at):
        names = {"initial_config.yaml": "FInitial", "training_config.yaml": "FTraining"}
        if isinstance(f, ast.JoinedStr):
            tail = f.values[-1]
            if isinstance(tail, ast.Constant) and isinstance(tail.value, str):
                base = tail.value.rsplit("/", 1)[-1]
                head_ok = isinstance(f.values[0], ast.FormattedValue) and dotted(f.values[0].value) == "self.dir_path"
                if base in names and head_ok:
                    return names[base]
        if isinstance(f, ast.Call) and isinstance(f.func, ast.Attribute) and f.func.attr == "as_posix":
            f = f.func.value
        if isinstance(f, ast.Name):
            defs = scope["defs"].get(f.id, [])
            if defs and all(isinstance(d, ast.BinOp) and isinstance(d.op, ast.Div)
                            and isinstance(d.right, ast.Constant) and d.right.value == "config.yaml"
                            and "chunks_path" in ast.dump(d.left) for d in defs):
                return "FChunkCfg"
        raise Unsupported(at, "OmegaConf.save: unrecognised target file")

    def rm(self, c: ast.Call, scope):
        if not c.args:
            raise Unsupported(c, "shutil.rmtree without a path")
        d = ast.dump(c.args[0])
        table = {"train_np_chunks_path": "RmTrain", "val_np_chunks_path": "RmVal",
                 "train_litdata_chunks_path": "RmLitTrain", "val_litdata_chunks_path": "RmLitVal"}
        hits = [v for k, v in table.items() if f"attr='{k}'" in d]
        if len(hits) != 1:
            raise Unsupported(c, "shutil.rmtree of an unrecognised directory")
        return ("do", f"ARm {hits[0]}", f"line {c.lineno}")

    def fit(self, c: ast.Call, scope):
        if not c.args or dotted(c.args[0]) != "self.model":
            raise Unsupported(c, "self.trainer.fit is not called on self.model")
        if not self.model_captures_live:
            raise Unsupported(c, "fit before the lightning module was constructed from self.config")
        if self.ckpt_guard is None:
            raise Unsupported(c, "fit before `self.trainer = L.Trainer(..., enable_checkpointing=...)`")
        if self.n_trainer != 1:
            raise Unsupported(c, "fit without exactly one Trainer(...) construction before it")
        self.n_fit += 1
        if self.n_fit > 1:
            raise Unsupported(c, "more than one call of self.trainer.fit")
        ck = mk_if(self.ckpt_guard, ("do", self.ckpt_atom, "checkpoints written during Trainer.fit"), ("skip",))
        return seq([ck, ("do", f"ACall {CALL_FIT}", f"Trainer.fit returns (line {c.lineno})")])

    # ---- conditions -------------------------------------------------------------
    def opaque(self, node):
        k = self.n_opaque
        self.n_opaque += 1
        try:
            self.opaque_src[k] = ast.unparse(node).replace("\n", " ")[:90] + f"  (line {node.lineno})"
        except Exception:
            self.opaque_src[k] = f"line {getattr(node, 'lineno', '?')}"
        return ("opaque", k)

    def flag_source(self, node, scope):
        """config path whose value `node` reads, following `self.X = <cfg path>` of __init__."""
        p = self.cfg_path(node, scope)
        if p is not None:
            return p
        if isinstance(node, ast.Attribute) and isinstance(node.value, ast.Name) and node.value.id == "self":
            return self.attr_alias.get(node.attr)
        return None

    def cond(self, node, scope):
        if isinstance(node, ast.BoolOp):
            # rank is None or rank == 0
            if isinstance(node.op, ast.Or) and len(node.values) == 2:
                a, b = node.values
                if (isinstance(a, ast.Compare) and isinstance(a.left, ast.Name) and a.left.id in scope["rank"]
                        and isinstance(a.ops[0], ast.Is) and isinstance(a.comparators[0], ast.Constant)
                        and a.comparators[0].value is None
                        and isinstance(b, ast.Compare) and isinstance(b.left, ast.Name) and b.left.id in scope["rank"]
                        and isinstance(b.ops[0], ast.Eq) and isinstance(b.comparators[0], ast.Constant)
                        and b.comparators[0].value == 0):
                    return ("flag", "RankZero")
            parts = [self.cond(v, scope) for v in node.values]
            op = "and" if isinstance(node.op, ast.And) else "or"
            acc = parts[0]
            for p in parts[1:]:
                acc = (op, acc, p)
            return acc
        if isinstance(node, ast.UnaryOp) and isinstance(node.op, ast.Not):
            return ("not", self.cond(node.operand, scope))
        if isinstance(node, ast.Constant) and isinstance(node.value, bool):
            return ("CTrue",) if node.value else ("CFalse",)
        src = self.flag_source(node, scope)
        if src in FLAG_BY_PATH:
            return ("flag", FLAG_BY_PATH[src])
        if isinstance(node, ast.Compare) and len(node.ops) == 1:
            left, op, right = node.left, node.ops[0], node.comparators[0]
            if self.flag_source(left, scope) == WANDB_MODE_PATH and isinstance(right, ast.Constant) \
                    and right.value == "offline" and isinstance(op, (ast.Eq, ast.NotEq)):
                c = ("flag", "WandbOffline")
                return c if isinstance(op, ast.Eq) else ("not", c)
            if self.flag_source(left, scope) == FW_PATH:
                via_attr = self.cfg_path(left, scope) is None      # self.data_pipeline_fw, not the config node
                if isinstance(op, ast.Eq) and isinstance(right, ast.Constant) and right.value in FW_FLAG:
                    return self.fw_is(right.value, via_attr)
                if isinstance(op, ast.In) and isinstance(right, (ast.List, ast.Tuple)) and all(
                        isinstance(e, ast.Constant) and e.value in FW_FLAG for e in right.elts) and right.elts:
                    acc = self.fw_is(right.elts[0].value, via_attr)
                    for e in right.elts[1:]:
                        acc = ("or", acc, self.fw_is(e.value, via_attr))
                    return acc
        if self.call_effects(node, scope):
            raise Unsupported(node, "condition with an effectful call")
        return self.opaque(node)

    def fw_is(self, value: str, via_attr: bool):
        """`self.data_pipeline_fw == value`: the configured framework — or, once the memory fallback has
        re-defined the ATTRIBUTE (the config node keeps its value), the switched one under its guard."""
        base = ("flag", FW_FLAG[value])
        if not via_attr or self.fw_override is None:
            return base
        g, newv = self.fw_override
        kept = ("and", ("not", g), base)
        return ("or", g, kept) if value == newv else kept

    # ---- statements ----------------------------------------------------------------
    def stmt(self, st, scope, siblings, last):
        if isinstance(st, ast.Expr):
            if isinstance(st.value, ast.Constant):
                return ("skip",)
            return seq(self.call_effects(st.value, scope))
        if isinstance(st, (ast.Assign, ast.AnnAssign, ast.AugAssign)):
            return self.assign(st, scope, siblings)
        if isinstance(st, ast.If):
            return self.if_(st, scope)
        if isinstance(st, ast.For):
            return self.for_(st, scope)
        if isinstance(st, ast.While):
            body = seq([self.block(st.body, scope), self.block(st.orelse, scope)] + self.call_effects(st.test, scope))
            if has_effect(body):
                raise Unsupported(st, "while loop with effects on the configuration")
            return ("skip",)
        if isinstance(st, ast.Try):
            return self.try_(st, scope)
        if isinstance(st, ast.Raise):
            if st.exc is not None and self.call_effects(st.exc, scope):
                raise Unsupported(st, "raise with an effectful expression")
            if not self.in_handler:
                self.raise_sites.append({"line": st.lineno, "guard": [pp_cond(c) for c in self.cond_stack],
                                         "opaque": sorted({n for c in self.cond_stack for n in self._opaques(c)})})
            return ("do", "ARaise", f"line {st.lineno}")
        if isinstance(st, ast.Return):
            effs = self.call_effects(st.value, scope) if st.value is not None else []
            if not last:
                raise Unsupported(st, "return that is not the last statement of the function")
            return seq(effs)
        if isinstance(st, (ast.Pass, ast.Import, ast.ImportFrom)):
            return ("skip",)
        if isinstance(st, ast.Assert):
            if self.call_effects(st.test, scope):
                raise Unsupported(st, "assert with an effectful call")
            return ("skip",)
        if isinstance(st, (ast.Break, ast.Continue)):
            return ("break",)
        if isinstance(st, ast.Delete):
            for t in st.targets:
                if self.cfg_path(t, scope) is not None:
                    raise Unsupported(st, "del of a configuration entry")
            return ("skip",)
        if isinstance(st, ast.FunctionDef):
            a = st.args
            if a.args or a.kwonlyargs or a.vararg or a.kwarg or st.decorator_list:
                raise Unsupported(st, "nested function with arguments / decorators")
            scope.setdefault("localfuncs", {})[st.name] = st
            return ("skip",)
        raise Unsupported(st, f"statement kind {type(st).__name__} is outside the recognised fragment")

    def assign(self, st, scope, siblings):
        value = st.value
        targets = st.targets if isinstance(st, ast.Assign) else [st.target]
        effs = []
        flat = []
        ckpt_name = None
        for t in targets:
            flat.extend(t.elts if isinstance(t, (ast.Tuple, ast.List)) else [t])
        for t in flat:
            if isinstance(t, ast.Name) or self._self_attr(t) is not None:
                self.steps_assign(st, t, value, scope)
        for t in flat:
            # (a) the configuration object itself
            if dotted(t) == "self.config":
                # the only recognised (re)load: the verified SUPPLIED configuration, in the constructor
                # (anything else could make `initial_config.yaml == supplied` false without an ASet)
                fn = scope.get("fn")
                param = fn.args.args[1].arg if fn is not None and len(fn.args.args) > 1 else None
                if not (scope["ctor"] and len(scope["stack"]) == 1 and isinstance(value, ast.Call)
                        and dotted(value.func) == "verify_training_cfg" and len(value.args) == 1
                        and not value.keywords and isinstance(value.args[0], ast.Name)
                        and value.args[0].id == param):
                    raise Unsupported(st, "self.config is assigned something other than "
                                          "verify_training_cfg(<the constructor's config argument>)")
                effs.append(("do", "AReload", f"line {st.lineno}"))
                continue
            p = None if isinstance(t, ast.Name) else self.cfg_path(t, scope)
            # (b) a mutation of the live configuration
            if p is not None:
                if p == KEYPATH:
                    if isinstance(st, ast.Assign) and isinstance(value, ast.Constant) and value.value == "":
                        effs.append(("do", "AMask", f"line {st.lineno}"))
                    else:
                        self.notes.append(f"line {st.lineno}: api_key assigned a non-blank value (treated as a reload)")
                        effs.append(("do", "AReload", f"line {st.lineno}"))
                elif self.exposes_key(p):
                    self.notes.append(f"line {st.lineno}: a key-bearing sub-configuration is replaced (treated as a reload)")
                    effs.append(("do", "AReload", f"line {st.lineno}"))
                else:
                    d, how = self.schema.declared(p)
                    i = self.path_id(p)
                    self.path_notes[i] = how
                    effs.append(("do", f"ASet {i} {'true' if d else 'false'}",
                                 ".".join(p) + f" (line {st.lineno})" + ("" if d else f" -- NOT DECLARED: {how}")))
                continue
            # (c) a masked copy being prepared:  c = self.config.copy(); c.trainer_config.wandb.api_key = ""
            if isinstance(t, ast.Name) and value is not None and self._is_copy_of_self_config(value):
                scope["copies"][t.id] = {"masked": False, "block": id(siblings)}
                continue
            if isinstance(t, ast.Attribute) and dotted(t) is not None and dotted(t).split(".")[0] in scope["copies"]:
                nm = dotted(t).split(".")[0]
                if tuple(dotted(t).split(".")[1:]) == KEYPATH and isinstance(value, ast.Constant) \
                        and value.value == "" and scope["copies"][nm]["block"] == id(siblings):
                    scope["copies"][nm]["masked"] = True
                continue
            # (d) local names
            if isinstance(t, ast.Name):
                vp = self.cfg_path(value, scope) if value is not None else None
                if vp is not None and not isinstance(st, ast.AugAssign):
                    old = scope["alias"].get(t.id)
                    if old is not None and old != vp:
                        raise Unsupported(st, f"local `{t.id}` aliases two different parts of the configuration")
                    scope["alias"][t.id] = vp
                else:
                    if t.id in scope["alias"]:
                        raise Unsupported(st, f"local `{t.id}` was an alias of the configuration and is rebound")
                    scope["defs"].setdefault(t.id, []).append(value)
                    if isinstance(value, ast.Call) and dotted(value.func) == "get_dist_rank":
                        scope["rank"].add(t.id)
                    if isinstance(value, ast.List):
                        scope.setdefault("listdefs", {}).setdefault(t.id, []).append((value, list(self.cond_stack)))
                    if isinstance(value, ast.Call) and (dotted(value.func) or "").split(".")[-1] == "ModelCheckpoint":
                        ckpt_name = t.id
                continue
            # (e) attributes of self
            if isinstance(t, ast.Attribute) and isinstance(t.value, ast.Name) and t.value.id == "self":
                vp = self.cfg_path(value, scope) if value is not None else None
                if scope["ctor"] and len(scope["stack"]) == 1:
                    if t.attr in self.attr_alias and self.attr_alias[t.attr] != vp:
                        self.attr_alias[t.attr] = None         # not a stable alias
                    else:
                        self.attr_alias.setdefault(t.attr, vp)
                    self.attr_defs.setdefault(t.attr, []).append(value)
                else:
                    # re-definition of an attribute the conditions / rm targets depend on
                    if self.attr_alias.get(t.attr) in list(FLAG_BY_PATH) + [FW_PATH] or t.attr in (
                            "train_np_chunks_path", "val_np_chunks_path", "np_chunks",
                            "train_litdata_chunks_path", "val_litdata_chunks_path", "dir_path"):
                        if value is not None and any(d is not None and ast.dump(d) == ast.dump(value)
                                                     for d in self.attr_defs.get(t.attr, [])):
                            continue              # same definition as in __init__: no change
                        return ("redef", t.attr, st.lineno, value)
                continue
            # (f) anything else (os.environ[...] = ..., x.y = ...): must not receive the key-bearing config
            if value is not None and self.exposures(value, scope):
                raise Unsupported(st, "the key-bearing configuration is stored into an unrecognised object")
        if value is not None:
            self.cur_target = dotted(flat[0]) if len(flat) == 1 else None
            try:
                effs = self.call_effects(value, scope) + effs
            finally:
                self.cur_target = None
        if ckpt_name is not None and self.ckpt_cb is not None and self.ckpt_cb["name"] is None:
            self.ckpt_cb["name"] = ckpt_name
        return seq(effs)

    def if_(self, st: ast.If, scope):
        # if P.exists(): shutil.rmtree(P...)   ==  ensure P is gone
        if (isinstance(st.test, ast.Call) and isinstance(st.test.func, ast.Attribute) and st.test.func.attr == "exists"
                and not st.orelse and len(st.body) == 1 and isinstance(st.body[0], ast.Expr)
                and isinstance(st.body[0].value, ast.Call) and dotted(st.body[0].value.func) == "shutil.rmtree"
                and st.body[0].value.args
                and ast.dump(st.test.func.value) in ast.dump(st.body[0].value.args[0])):
            return self.rm(st.body[0].value, scope)
        steps_guard = self.steps_if(st, scope)
        if self._is_memory_test(st.test, scope):
            c = ("flag", "MemFallback")
        else:
            c = self.cond(st.test, scope)
        self.cond_stack.append(c)
        self.in_steps_if += int(steps_guard)
        try:
            th = self.block(st.body, scope)
        finally:
            self.in_steps_if -= int(steps_guard)
        self.cond_stack[-1] = ("not", c)
        el = self.block(st.orelse, scope)
        self.cond_stack.pop()
        # the memory fallback of _create_data_loaders_torch_dataset re-defines the framework attribute
        # and the chunk paths under `total_cache_memory > available_memory`: from there on every test of
        # self.data_pipeline_fw sees the switched value under the guard <path condition> /\ MemFallback
        for br in (th, el):
            if self._contains(br, "redef"):
                if c == ("flag", "MemFallback") and br is th and not has_effect(self._strip(br, "redef")) \
                        and not st.orelse and self.fw_override is None:
                    self._memory_fallback(st, th)
                    th = ("skip",)
                else:
                    raise Unsupported(st, "an attribute that run flags / chunk paths depend on is re-defined")
        return mk_if(c, th, el)

    def _is_memory_test(self, test, scope) -> bool:
        """`total_cache_memory > available_memory` with available_memory = psutil.virtual_memory().available"""
        if not (isinstance(test, ast.Compare) and len(test.ops) == 1 and isinstance(test.ops[0], ast.Gt)
                and isinstance(test.comparators[0], ast.Name) and test.comparators[0].id == "available_memory"):
            return False
        defs = scope["defs"].get("available_memory", [])
        return bool(defs) and all(d is not None and "virtual_memory" in ast.dump(d) for d in defs)

    @staticmethod
    def _opaques(c) -> list:
        if c[0] == "opaque":
            return [c[1]]
        if c[0] == "not":
            return Translator._opaques(c[1])
        if c[0] in ("and", "or"):
            return Translator._opaques(c[1]) + Translator._opaques(c[2])
        return []

    @staticmethod
    def _cond_named(c) -> bool:
        if c[0] == "opaque":
            return False
        if c[0] == "not":
            return Translator._cond_named(c[1])
        if c[0] in ("and", "or"):
            return Translator._cond_named(c[1]) and Translator._cond_named(c[2])
        return True

    def _memory_fallback(self, st, th):
        redefs = [x for x in (th[1] if th[0] == "seq" else [th]) if x[0] == "redef"]
        got = {r[1]: r[3] for r in redefs}
        want = {"data_pipeline_fw", "np_chunks", "train_np_chunks_path", "val_np_chunks_path"}
        if set(got) != want:
            raise Unsupported(st, f"memory fallback re-defines {sorted(got)}, expected {sorted(want)}")
        fw = got["data_pipeline_fw"]
        if not (isinstance(fw, ast.Constant) and fw.value == "torch_dataset_np_chunks"):
            raise Unsupported(st, "memory fallback does not switch to torch_dataset_np_chunks")
        if not (isinstance(got["np_chunks"], ast.Constant) and got["np_chunks"].value is True):
            raise Unsupported(st, "memory fallback does not set self.np_chunks = True")
        for attr, leaf in (("train_np_chunks_path", "train_chunks"), ("val_np_chunks_path", "val_chunks")):
            if leaf not in ast.dump(got[attr]):
                raise Unsupported(st, f"memory fallback: self.{attr} does not end in `{leaf}`")
        outer = self.cond_stack[:]          # (the test itself was popped already)
        if not all(self._cond_named(c) for c in outer):
            raise Unsupported(st, "memory fallback under a data-dependent condition")
        g = ("flag", "MemFallback")
        for c in reversed(outer):
            g = ("and", c, g)
        self.fw_override = (g, "torch_dataset_np_chunks")
        self.notes.append(f"line {st.lineno}: memory fallback modelled: self.data_pipeline_fw reads as "
                          f"torch_dataset_np_chunks under {pp_cond(g)}")

    def _contains(self, ir, tag) -> bool:
        if ir[0] == tag:
            return True
        if ir[0] == "seq":
            return any(self._contains(x, tag) for x in ir[1])
        if ir[0] == "if":
            return self._contains(ir[2], tag) or self._contains(ir[3], tag)
        if ir[0] == "loop":
            return self._contains(ir[2], tag)
        if ir[0] == "try":
            return self._contains(ir[1], tag) or self._contains(ir[3], tag)
        return False

    def _strip(self, ir, tag):
        if ir[0] == tag:
            return ("skip",)
        if ir[0] == "seq":
            return seq([self._strip(x, tag) for x in ir[1]])
        return ir

    def for_(self, st: ast.For, scope):
        if self.call_effects(st.iter, scope):
            raise Unsupported(st, "for loop over an effectful expression")
        # for k, v in <cfg>.items():  v aliases a dynamic part of the configuration
        it = st.iter
        if isinstance(it, ast.Call) and isinstance(it.func, ast.Attribute) and it.func.attr == "items":
            base = self.cfg_path(it.func.value, scope)
            if base is not None and isinstance(st.target, ast.Tuple) and len(st.target.elts) == 2 \
                    and isinstance(st.target.elts[1], ast.Name):
                scope["alias"][st.target.elts[1].id] = base + ("*",)
        body = self.block(st.body, scope)
        if st.orelse:
            body = seq([body, self.block(st.orelse, scope)])
        stripped = self._strip_breaks(body)
        if not has_effect(stripped):
            return ("skip",)
        if self._contains(body, "break"):
            raise Unsupported(st, "loop with break/continue and effects on the configuration")
        k = self.n_loop
        self.n_loop += 1
        return ("loop", k, body)

    def _strip_breaks(self, ir):
        if ir[0] == "break":
            return ("skip",)
        if ir[0] == "seq":
            return seq([self._strip_breaks(x) for x in ir[1]])
        if ir[0] == "if":
            return mk_if(ir[1], self._strip_breaks(ir[2]), self._strip_breaks(ir[3]))
        return ir

    def try_(self, st: ast.Try, scope):
        body = self.block(st.body, scope)
        if st.orelse:
            body = seq([body, self.block(st.orelse, scope)])
        fin = self.block(st.finalbody, scope)
        ck = False
        swallow_other = False
        for h in st.handlers:
            self.in_handler += 1
            try:
                hb = self.block(h.body, scope)
            finally:
                self.in_handler -= 1
            reraises = bool(h.body) and isinstance(h.body[-1], ast.Raise)
            if has_effect(self._strip_raise(hb)):
                raise Unsupported(h, "exception handler with effects on the configuration")
            tname = dotted(h.type) if h.type is not None else None
            if tname == "KeyboardInterrupt" and not reraises:
                ck = True
            elif not reraises:
                swallow_other = True
        if swallow_other and has_effect(body):
            raise Unsupported(st, "a handler swallows exceptions other than KeyboardInterrupt around effects")
        if not has_effect(body) and not has_effect(fin):
            return ("skip",)
        if not ck and not swallow_other and not has_effect(fin):
            # no finally, every handler re-raises: the statement behaves like its body (an exception inside ends
            # the process, as anywhere outside a try with a `finally` / a swallowing handler)
            return body
        return ("try", body, ck, fin)

    def _strip_raise(self, ir):
        if ir[0] == "do" and ir[1] == "ARaise":
            return ("skip",)
        if ir[0] == "seq":
            return seq([self._strip_raise(x) for x in ir[1]])
        return ir


def _clean(ir):
    """drop translator-internal markers that carry no effect."""
    k = ir[0]
    if k in ("break", "redef"):
        return ("skip",)
    if k == "seq":
        return seq([_clean(x) for x in ir[1]])
    if k == "if":
        return mk_if(ir[1], _clean(ir[2]), _clean(ir[3]))
    if k == "loop":
        b = _clean(ir[2])
        return ("loop", ir[1], b) if has_effect(b) else ("skip",)
    if k == "try":
        return ("try", _clean(ir[1]), ir[2], _clean(ir[3]))
    return ir


def _no_comment(ir):
    k = ir[0]
    if k == "do":
        return ("do", ir[1])
    if k == "seq":
        return ("seq", [_no_comment(x) for x in ir[1]])
    if k == "if":
        return ("if", ir[1], _no_comment(ir[2]), _no_comment(ir[3]))
    if k == "loop":
        return ("loop", ir[1], _no_comment(ir[2]))
    if k == "try":
        return ("try", _no_comment(ir[1]), ir[2], _no_comment(ir[3]))
    return ir


def _observable(ir) -> bool:
    """contains an atom other than a declared mutation / an explicit rejection"""
    k = ir[0]
    if k == "do":
        return not (ir[1].startswith("ASet") and ir[1].endswith("true")) and ir[1] != "ARaise"
    if k == "seq":
        return any(_observable(x) for x in ir[1])
    if k == "if":
        return _observable(ir[2]) or _observable(ir[3])
    if k == "loop":
        return _observable(ir[2])
    if k == "try":
        return True
    return False


def _hoist(ir):
    """if A: X elif B: X ... else: raise  ==  (if A: pass elif B: pass ... else: raise); X
    for data-dependent (opaque) A, B and an observable effect X that is THE SAME in every non-raising
    branch (the four model-type branches of the data-loader methods each construct a train and a val
    dataset).  Exact: the conditions have no effects and are evaluated before X either way."""
    k = ir[0]
    if k == "seq":
        return seq([_hoist(x) for x in ir[1]])
    if k == "loop":
        return ("loop", ir[1], _hoist(ir[2]))
    if k == "try":
        return ("try", _hoist(ir[1]), ir[2], _hoist(ir[3]))
    if k != "if":
        return ir
    if Translator._cond_named(ir[1]):
        return mk_if(ir[1], _hoist(ir[2]), _hoist(ir[3]))

    def leaves(x):
        if x[0] == "if" and not Translator._cond_named(x[1]):
            return leaves(x[2]) + leaves(x[3])
        return [x]

    def is_raise(x):
        return x[0] == "do" and x[1] == "ARaise"
    ls = leaves(ir)
    body = [x for x in ls if not is_raise(x)]
    if body and _observable(body[0]) and all(_no_comment(x) == _no_comment(body[0]) for x in body):
        def chain(x):
            if x[0] == "if" and not Translator._cond_named(x[1]):
                return mk_if(x[1], chain(x[2]), chain(x[3]))
            return x if is_raise(x) else ("skip",)
        return seq([chain(ir), _hoist(body[0])])
    return mk_if(ir[1], _hoist(ir[2]), _hoist(ir[3]))


def generate(repo: Path) -> tuple[str, dict]:
    """Returns (coq source text, info dict).  Raises Unsupported (fail-closed)."""
    tr = Translator(repo)
    # the checkpoint guard is read off `ModelCheckpoint(...)` / `L.Trainer(callbacks=..., enable_checkpointing=...)`
    # while train() is translated (Translator.model_checkpoint / trainer_ctor)
    ir = _hoist(_clean(tr.translate()))
    if tr.n_trainer != 1 or tr.n_fit != 1:
        raise Unsupported(None, "train() does not construct exactly one Trainer and call fit exactly once")
    sha = {p.name: hashlib.sha256(p.read_bytes()).hexdigest()[:16]
           for p in (tr.src_trainer, tr.src_lm, tr.repo / "sleap_nn/config/trainer_config.py")}
    lines = ["(* GENERATED on every run by translator/c19_effects2coq.py — do not edit.",
             f"   source: {san(str(tr.src_trainer))}",
             "   sha256[:16]: " + ", ".join(f"{k}={v}" for k, v in sha.items()),
             "",
             "   ASet paths:"]
    for i, p in enumerate(tr.paths):
        lines.append(san(f"     {i} = {'.'.join(p)}   [{tr.path_notes.get(i, '')}]"))
    lines.append("   opaque conditions:")
    for i, s in sorted(tr.opaque_src.items()):
        lines.append(f"     {i} = {san(s)}")
    lines.append("   notes:")
    for s in tr.notes + ["ASSUMPTION " + a for a in tr.assumptions]:
        lines.append("     " + san(s))
    lines.append("*)")
    lines += ["From Coq Require Import List.", "Import ListNotations.", "From SV Require Import C19.EffectIR.", "",
              "Definition generated : eff :=", pp(ir, 2) + ".", ""]
    for r in tr.raise_sites:
        r["opaque_src"] = [tr.opaque_src.get(n, "?") for n in r["opaque"]]
    info = {"raise_sites": tr.raise_sites, "mk_sites": tr.mk_sites, "loader_sites": tr.loader_sites,
            "ckpt_guard": pp_cond(tr.ckpt_guard) if tr.ckpt_guard is not None else None,
            "paths": [".".join(p) for p in tr.paths], "path_notes": tr.path_notes, "opaque": tr.opaque_src,
            "notes": tr.notes, "assumptions": tr.assumptions, "sha": sha, "n_loops": tr.n_loop,
            "undeclared": [".".join(p) for i, p in enumerate(tr.paths)
                           if tr.path_notes.get(i, "").startswith("`")]}
    return "\n".join(lines), info


def self_test(repo: Path) -> dict:
    """Feed the translator deliberately mutated copies of the source (in a scratch directory,
    removed afterwards); every mutant must give a CHANGED term or be REJECTED."""
    import re
    import shutil
    import tempfile
    base_text, _ = generate(repo)
    body = lambda t: t[t.index("Definition generated"):]
    base_body = re.sub(r"\(\*.*?\*\)", "", body(base_text))
    files = ["sleap_nn/training/model_trainer.py", "sleap_nn/training/lightning_modules.py"] + \
            [str(p.relative_to(repo)) for p in (repo / "sleap_nn/config").glob("*.py")]
    MT, LM, TC = files[0], files[1], "sleap_nn/config/trainer_config.py"
    mask = 'self.config.trainer_config.wandb.api_key = ""'
    muts = []
    src_mt = (repo / MT).read_text()
    for i in range(src_mt.count(mask)):
        muts.append((f"mask #{i} removed", MT, lambda s, i=i: _replace_nth(s, mask, "pass", i)))
    muts += [
        ("checkpoint stores a converted config", LM,
         lambda s: s.replace('checkpoint["config"] = self.config', 'checkpoint["config"] = OmegaConf.to_container(self.config)')),
        ("config printed", MT, lambda s: s.replace("        torch.manual_seed(self.seed)\n",
                                                   "        torch.manual_seed(self.seed)\n        print(self.config)\n", 1)),
        ("finally replaced by plain block", MT, lambda s: s.replace("        finally:\n", "        if True:\n", 1)),
        ("checkpointing always enabled", MT,
         lambda s: s.replace("enable_checkpointing=self.config.trainer_config.save_ckpt", "enable_checkpointing=True")),
        ("run_id declaration toggled", TC,
         lambda s: s.replace("    run_id: Optional[str] = None\n", "") if "    run_id: Optional[str] = None\n" in s
         else s.replace("    group: Optional[str] = None\n", "    group: Optional[str] = None\n    run_id: Optional[str] = None\n", 1)),
        ("ModelCheckpoint never keeps a top-k model", MT,
         lambda s: s.replace("save_top_k=self.config.trainer_config.model_ckpt.save_top_k", "save_top_k=0")),
        ("ModelCheckpoint callback dropped from the list", MT,
         lambda s: s.replace("callbacks = [checkpoint_callback]", "callbacks = []")),
        ("chunk clean-up ignores the memory fallback", MT, lambda s: _replace_last(
            s, 'self.data_pipeline_fw == "torch_dataset_np_chunks"\n                and self.config.data_config.delete',
            'self.config.data_config.data_pipeline_fw == "torch_dataset_np_chunks"\n                and self.config.data_config.delete')),
        ("val loader steps unguarded", MT, lambda s: s.replace(
            "steps_per_epoch=val_steps_per_epoch if val_steps_per_epoch != 0 else 1", "steps_per_epoch=val_steps_per_epoch")),
        ("train loader steps unguarded", MT, lambda s: s.replace(
            "            if self.steps_per_epoch == 0:\n                self.steps_per_epoch = 1\n", "")),
        ("final save dropped", MT, lambda s: _replace_last(
            s, 'OmegaConf.save(\n                config=self.config, f=f"{self.dir_path}/training_config.yaml"\n            )', "pass")),
    ]
    res = {"applied": 0, "detected": 0, "skipped": [], "missed": []}
    for name, rel, fn in muts:
        d = Path(tempfile.mkdtemp(prefix="sv_c19_tr_"))
        try:
            for f in files:
                (d / f).parent.mkdir(parents=True, exist_ok=True)
                shutil.copy(repo / f, d / f)
            old = (d / rel).read_text()
            new = fn(old)
            if new == old:
                res["skipped"].append(name)
                continue
            (d / rel).write_text(new)
            res["applied"] += 1
            try:
                t, _ = generate(d)
                changed = re.sub(r"\(\*.*?\*\)", "", body(t)) != base_body
            except (Unsupported, SyntaxError):
                changed = True
            if changed:
                res["detected"] += 1
            else:
                res["missed"].append(name)
        finally:
            shutil.rmtree(d, ignore_errors=True)
    return res


def _replace_nth(s: str, old: str, new: str, n: int) -> str:
    i = -1
    for _ in range(n + 1):
        i = s.find(old, i + 1)
        if i < 0:
            return s
    return s[:i] + new + s[i + len(old):]


def _replace_last(s: str, old: str, new: str) -> str:
    i = s.rfind(old)
    return s if i < 0 else s[:i] + new + s[i + len(old):]


def main(argv):
    if len(argv) > 1 and argv[1] == "--self-test":
        r = self_test(Path(argv[2]) if len(argv) > 2 else Path("/repo"))
        print(r)
        return 0 if not r["missed"] and r["applied"] else 1
    repo = Path(argv[1]) if len(argv) > 1 else Path("/repo")
    out = Path(argv[2]) if len(argv) > 2 else None
    try:
        text, info = generate(repo)
    except Unsupported as e:
        print(f"effects2coq: UNSUPPORTED at line {e.lineno}: {e.why}", file=sys.stderr)
        return 2
    if out:
        out.write_text(text)
    else:
        print(text)
    return 0


if __name__ == "__main__":
    sys.exit(main(sys.argv))
