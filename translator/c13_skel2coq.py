"""C13 skel2coq — extract the control skeleton of

    sleap_nn/data/providers.py      VideoReader.run, LabelsReader.run (+ LabelsReader.total_len)
    sleap_nn/inference/predictors.py Predictor._predict_generator

from the source tree (stdlib `ast` only) as terms of `SV.C13.Stream.sk` and write
them to coq/theories/Gen/C13_Skel.v (definitions) and Gen/C13_SkelCheck.v (the
per-run obligation `skeletons_match generated`).

What is kept: try/except/finally, for/while/if structure around the operations
the property is about — frame reads (`self.video[idx]`, `self.labels[idx]`),
`frame_buffer.put` of a frame dict / of the end-of-stream marker,
`frame_buffer.get`, the marker test, `done` assignments, break/continue/return/
raise, accumulator reset/append, the inference call, `yield`, `pipeline.start()`
and `pipeline.join()`.  Statements that contain none of these ("pure": local
computation, logging, tensor preprocessing) are dropped, so harmless rewrites
do not change the skeleton.

Data provenance (readers): the frame dict's `frame_idx` must derive from the loop
index / `lf.frame_idx`, its `image` and `orig_size` from the frame just read (local
names are tracked through re-assignments), its `video_idx` must be 0 (video) /
`self.labels.videos.index(lf.video)` (labels).

Fail-closed: any use of the queue, the data source, the done flag, `yield`, or
a statement kind outside the recognised fragment raises SkelError with the
source location; the caller then treats the static tie as broken.
"""
from __future__ import annotations

import ast
from pathlib import Path


class SkelError(Exception):
    pass


def _err(node, msg):
    raise SkelError(f"line {getattr(node, 'lineno', '?')}: {msg}")


def _is_attr_chain(node, chain):
    """node is `a.b.c` for chain ['a','b','c']."""
    for name in reversed(chain[1:]):
        if not (isinstance(node, ast.Attribute) and node.attr == name):
            return False
        node = node.value
    return isinstance(node, ast.Name) and node.id == chain[0]


def _contains(node, pred):
    return any(pred(n) for n in ast.walk(node))


def _find_class(tree, name):
    for n in tree.body:
        if isinstance(n, ast.ClassDef) and n.name == name:
            return n
    raise SkelError(f"class {name} not found")


def _find_method(cls, name):
    found = [n for n in cls.body if isinstance(n, ast.FunctionDef) and n.name == name]
    if len(found) != 1:
        raise SkelError(f"{cls.name}.{name}: expected exactly one definition, found {len(found)}")
    if found[0].decorator_list:
        _err(found[0], f"{cls.name}.{name} is decorated")
    return found[0]


# skeleton terms are nested tuples:
#   ("atom", "ARead") | ("atom", "ASetDone", bool)
#   ("try", body, catches, handler, fin) | ("for", rk, body) | ("while", notdone, body) | ("if", ck, th, el)

class _Ctx:
    """What identifies the relevant objects in one function."""

    def __init__(self, fn, role):
        self.fn = fn
        self.role = role                  # 'video' | 'labels' | 'consumer'
        self.buffer = ["self", "frame_buffer"] if role != "consumer" else ["self", "pipeline", "frame_buffer"]
        self.source = {"video": ["self", "video"], "labels": ["self", "labels"]}.get(role)
        self.loop_var = None              # index variable of the reading loop
        self.lf_var = None                # labels: variable holding self.labels[idx]
        self.dicts = {}                   # Name -> ast.Dict (single simple assignment)
        self.derived = set()              # reader: local names whose current value derives from the frame just read
        self.frame_var = None             # consumer: variable assigned from get()
        self.done_var = None
        self.acc_var = None
        self.batch_var = None
        self.out_var = None
        self.sentinel_key = None          # consumer: key tested against None
        self.frame_keys_nonnone = []      # reader: list of sets of keys with non-None values (one per frame put)
        self.marker_keys_none = []        # reader: list of sets of keys with None values (one per marker put)
        self._prescan()

    def _prescan(self):
        assigned = {}
        for n in ast.walk(self.fn):
            if isinstance(n, (ast.FunctionDef, ast.AsyncFunctionDef, ast.Lambda, ast.ClassDef)) and n is not self.fn:
                _err(n, "nested function/class/lambda")
            if isinstance(n, (ast.With, ast.AsyncWith, ast.AsyncFor, ast.Await, ast.Global, ast.Nonlocal,
                              ast.Delete, ast.Assert, ast.NamedExpr, ast.YieldFrom)) or type(n).__name__ in ("Match", "TryStar"):
                _err(n, f"statement/expression kind {type(n).__name__} outside the recognised fragment")
            if isinstance(n, ast.Assign) and len(n.targets) == 1 and isinstance(n.targets[0], ast.Name):
                assigned.setdefault(n.targets[0].id, []).append(n.value)
        for name, vals in assigned.items():
            if len(vals) == 1 and isinstance(vals[0], ast.Dict):
                self.dicts[name] = vals[0]
        if self.role == "consumer":
            whiles = [n for n in ast.walk(self.fn) if isinstance(n, ast.While)]
            for w in whiles:
                t = w.test
                if isinstance(t, ast.UnaryOp) and isinstance(t.op, ast.Not) and isinstance(t.operand, ast.Name):
                    self.done_var = t.operand.id
            for name, vals in assigned.items():
                for v in vals:
                    if isinstance(v, ast.Call) and isinstance(v.func, ast.Attribute) and v.func.attr == "get" \
                            and _is_attr_chain(v.func.value, self.buffer):
                        self.frame_var = name
                    if isinstance(v, ast.Call) and _is_attr_chain(v.func, ["self", "inference_model"]):
                        self.out_var = name
                    if isinstance(v, ast.Subscript) and _is_attr_chain(v.value, ["self", "preprocess_config"]) \
                            and isinstance(v.slice, ast.Constant) and v.slice.value == "batch_size":
                        if len(vals) != 1:
                            _err(v, "batch size variable assigned more than once")
                        self.batch_var = name
            # accumulator: the name tested by an `if <Name>:` whose body holds the inference call
            for n in ast.walk(self.fn):
                if isinstance(n, ast.If) and isinstance(n.test, ast.Name) and \
                        _contains(n, lambda m: isinstance(m, ast.Call) and _is_attr_chain(m.func, ["self", "inference_model"])):
                    self.acc_var = n.test.id

    # -- helpers ---------------------------------------------------------------
    def is_buffer(self, node):
        return _is_attr_chain(node, self.buffer)

    def mentions_buffer(self, node):
        return _contains(node, lambda m: isinstance(m, ast.Attribute) and m.attr == "frame_buffer")

    def is_source_read(self, node):
        return self.source is not None and isinstance(node, ast.Subscript) and _is_attr_chain(node.value, self.source)

    def mentions_source_read(self, node):
        return _contains(node, self.is_source_read)


def _range_kind(ctx, it, target):
    if isinstance(it, ast.Call) and isinstance(it.func, ast.Name) and it.func.id == "range" and not it.keywords:
        a = it.args
        if ctx.role == "video" and len(a) == 2 and _is_attr_chain(a[0], ["self", "start_idx"]) \
                and _is_attr_chain(a[1], ["self", "end_idx"]):
            return "RStartEnd"
        if ctx.role == "labels" and len(a) == 1 and isinstance(a[0], ast.Call) and not a[0].args \
                and not a[0].keywords and _is_attr_chain(a[0].func, ["self", "total_len"]):
            return "RTotalLen"
        if ctx.role == "consumer" and len(a) == 1 and isinstance(a[0], ast.Name) and a[0].id == ctx.batch_var:
            return "RBatch"
    if ctx.role == "consumer" and isinstance(it, ast.Name) and ctx.out_var and it.id == ctx.out_var:
        return "ROutputs"
    return "ROther"


def _cond_kind(ctx, t):
    if ctx.role == "consumer":
        if isinstance(t, ast.Compare) and len(t.ops) == 1 and isinstance(t.ops[0], ast.Is) \
                and isinstance(t.comparators[0], ast.Constant) and t.comparators[0].value is None \
                and isinstance(t.left, ast.Subscript) and isinstance(t.left.value, ast.Name) \
                and t.left.value.id == ctx.frame_var and isinstance(t.left.slice, ast.Constant):
            key = t.left.slice.value
            if ctx.sentinel_key not in (None, key):
                _err(t, "two different marker tests")
            ctx.sentinel_key = key
            return "CSentinel"
        if isinstance(t, ast.Name) and t.id == ctx.acc_var:
            return "CAcc"
        if isinstance(t, ast.Compare) and len(t.ops) == 1 and isinstance(t.ops[0], ast.IsNot) \
                and isinstance(t.comparators[0], ast.Constant) and t.comparators[0].value is None \
                and isinstance(t.left, ast.Name) and t.left.id == ctx.out_var:
            return "COutputs"
    return "COther"


def _classify_put(ctx, call, node):
    if len(call.args) != 1 or call.keywords:
        _err(node, "frame_buffer.put with other than exactly one positional argument")
    arg = call.args[0]
    d = arg if isinstance(arg, ast.Dict) else ctx.dicts.get(arg.id) if isinstance(arg, ast.Name) else None
    if d is None:
        _err(node, "argument of frame_buffer.put is not a dict literal (or a name bound once to one)")
    keys = {}
    for k, v in zip(d.keys, d.values):
        if not (isinstance(k, ast.Constant) and isinstance(k.value, str)):
            _err(node, "non-literal key in the dict put on the queue")
        keys[k.value] = v
    none_keys = {k for k, v in keys.items() if isinstance(v, ast.Constant) and v.value is None}
    if "image" not in keys or "frame_idx" not in keys or "orig_size" not in keys:
        _err(node, "dict put on the queue lacks image/frame_idx/orig_size")
    if "image" in none_keys:
        ctx.marker_keys_none.append(none_keys)
        return ("atom", "APutSentinel")
    # a frame: its frame_idx must come from the loop index
    fi = keys["frame_idx"]
    if ctx.role == "video":
        ok = ctx.loop_var is not None and _contains(fi, lambda m: isinstance(m, ast.Name) and m.id == ctx.loop_var)
    else:
        ok = ctx.lf_var is not None and _contains(
            fi, lambda m: isinstance(m, ast.Attribute) and m.attr == "frame_idx"
            and isinstance(m.value, ast.Name) and m.value.id == ctx.lf_var)
    if not ok:
        _err(node, "frame_idx of the frame dict is not derived from the loop index / the labelled frame read")
    # its image and its orig_size must derive from the frame just read (each frame its OWN size), its
    # video_idx from the labelled frame read (labels) / be the constant 0 (video)
    def from_read(v):
        return _contains(v, lambda m: isinstance(m, ast.Name) and m.id in ctx.derived)
    if not from_read(keys["image"]):
        _err(node, "image of the frame dict is not derived from the frame just read")
    if not from_read(keys["orig_size"]):
        _err(node, "orig_size of the frame dict is not derived from the frame just read")
    if "video_idx" in keys:
        vi = keys["video_idx"]
        if ctx.role == "video":
            okv = _contains(vi, lambda m: isinstance(m, ast.Constant) and m.value == 0 and not isinstance(m.value, bool)) \
                and not _contains(vi, lambda m: isinstance(m, ast.Name) and m.id != "torch")
        else:
            okv = ctx.lf_var is not None and _contains(
                vi, lambda m: isinstance(m, ast.Attribute) and m.attr == "video"
                and isinstance(m.value, ast.Name) and m.value.id == ctx.lf_var) and \
                _contains(vi, lambda m: _is_attr_chain(m, ["self", "labels", "videos"]))
        if not okv:
            _err(node, "video_idx of the frame dict is not 0 (video) / the index of the labelled frame's video (labels)")
    ctx.frame_keys_nonnone.append(set(keys) - none_keys)
    return ("atom", "APutFrame")


def _simple(ctx, node, in_acc_if):
    """Skeleton atoms of a simple statement (Assign/AugAssign/AnnAssign/Expr/Pass)."""
    if isinstance(node, ast.Pass):
        return []
    if isinstance(node, ast.Expr) and isinstance(node.value, ast.Constant):
        return []                                           # docstring
    value = node.value if not isinstance(node, ast.Pass) else None
    targets = node.targets if isinstance(node, ast.Assign) else \
        [node.target] if isinstance(node, (ast.AugAssign, ast.AnnAssign)) else []
    out = []
    # --- provenance of local names (readers): derived from the frame just read, or not
    if ctx.role in ("video", "labels") and isinstance(node, ast.Assign) and len(targets) == 1 \
            and isinstance(targets[0], ast.Name) and value is not None:
        srcs = ctx.derived | ({ctx.lf_var} if ctx.lf_var else set())
        if (ctx.source is not None and ctx.mentions_source_read(node)) or \
                _contains(value, lambda m: isinstance(m, ast.Name) and m.id in srcs):
            ctx.derived.add(targets[0].id)
        else:
            ctx.derived.discard(targets[0].id)
    # --- yield
    if _contains(node, lambda m: isinstance(m, ast.Yield)):
        if not (isinstance(node, ast.Expr) and isinstance(node.value, ast.Yield)):
            _err(node, "yield used as an expression")
        if ctx.mentions_buffer(node):
            _err(node, "queue used inside a yield")
        return [("atom", "AYield")]
    # --- queue operations
    if ctx.mentions_buffer(node):
        call = value
        if isinstance(node, ast.Expr) and isinstance(call, ast.Call) and isinstance(call.func, ast.Attribute) \
                and call.func.attr == "put" and ctx.is_buffer(call.func.value) and ctx.role != "consumer" \
                and not any(ctx.mentions_buffer(a) for a in call.args):
            return [_classify_put(ctx, call, node)]
        if isinstance(node, ast.Assign) and len(targets) == 1 and isinstance(targets[0], ast.Name) \
                and isinstance(call, ast.Call) and isinstance(call.func, ast.Attribute) and call.func.attr == "get" \
                and ctx.is_buffer(call.func.value) and not call.args and not call.keywords and ctx.role == "consumer":
            return [("atom", "AGet")]
        _err(node, "unrecognised use of the frame buffer")
    # --- reads of the data source
    if ctx.source is not None and ctx.mentions_source_read(node):
        if not (isinstance(node, ast.Assign) and len(targets) == 1 and isinstance(targets[0], ast.Name)
                and ctx.is_source_read(value) and isinstance(value.slice, ast.Name)
                and value.slice.id == ctx.loop_var):
            _err(node, "frame read is not `name = self.<source>[<loop index>]`")
        if ctx.role == "labels":
            ctx.lf_var = targets[0].id
        return [("atom", "ARead")]
    # --- consumer bookkeeping
    if ctx.role == "consumer":
        if _contains(node, lambda m: _is_attr_chain(m, ["self", "pipeline"])):
            if isinstance(node, ast.Expr) and isinstance(value, ast.Call) and not value.args and not value.keywords \
                    and isinstance(value.func, ast.Attribute) and _is_attr_chain(value.func.value, ["self", "pipeline"]) \
                    and value.func.attr in ("start", "join"):
                return [("atom", "AStart" if value.func.attr == "start" else "AJoin")]
            _err(node, "unrecognised use of self.pipeline")
        tnames = [t.id for t in targets if isinstance(t, ast.Name)]
        for t in targets:
            if not isinstance(t, ast.Name) and _contains(
                    t, lambda m: isinstance(m, ast.Name) and m.id in (ctx.done_var, ctx.acc_var)
                    and isinstance(getattr(m, "ctx", None), ast.Store)):
                _err(node, "done flag / accumulator assigned inside a compound target")
        if ctx.done_var in tnames:
            if isinstance(node, ast.Assign) and len(targets) == 1 and isinstance(value, ast.Constant) \
                    and isinstance(value.value, bool):
                return [("atom", "ASetDone", value.value)]
            _err(node, "done flag assigned something other than a boolean constant")
        if ctx.acc_var in tnames:
            if isinstance(node, ast.Assign) and len(targets) == 1 and isinstance(value, ast.List) and not value.elts:
                return [("atom", "AResetAcc")]
            if in_acc_if:
                return []                   # e.g. imgs = torch.concatenate(imgs): after the emptiness test
            _err(node, "accumulator assigned outside its reset")
        if isinstance(node, ast.Expr) and isinstance(value, ast.Call) and isinstance(value.func, ast.Attribute) \
                and isinstance(value.func.value, ast.Name) and value.func.value.id == ctx.acc_var:
            if value.func.attr == "append":
                return [("atom", "AAppend")]
            _err(node, "accumulator method other than append")
        if _contains(node, lambda m: isinstance(m, ast.Call) and _is_attr_chain(m.func, ["self", "inference_model"])):
            if isinstance(node, ast.Assign) and len(targets) == 1 and isinstance(targets[0], ast.Name) \
                    and isinstance(value, ast.Call) and _is_attr_chain(value.func, ["self", "inference_model"]):
                return [("atom", "AInfer")]
            _err(node, "unrecognised use of self.inference_model")
    return out


def _stmts(ctx, body, in_acc_if=False):
    out = []
    for node in body:
        if isinstance(node, (ast.Assign, ast.AugAssign, ast.AnnAssign, ast.Expr, ast.Pass)):
            out += _simple(ctx, node, in_acc_if)
        elif isinstance(node, ast.Return):
            out.append(("atom", "AReturn"))
        elif isinstance(node, ast.Raise):
            out.append(("atom", "ARaise"))
        elif isinstance(node, ast.Break):
            out.append(("atom", "ABreak"))
        elif isinstance(node, ast.Continue):
            out.append(("atom", "AContinue"))
        elif isinstance(node, ast.Try):
            if node.orelse:
                _err(node, "try with an else clause")
            if len(node.handlers) > 1:
                _err(node, "try with more than one handler")
            body_sk = _stmts(ctx, node.body, in_acc_if)
            catches, handler_sk = False, []
            if node.handlers:
                h = node.handlers[0]
                catches = isinstance(h.type, ast.Name) and h.type.id == "Exception"
                handler_sk = _stmts(ctx, h.body, in_acc_if)
            fin_sk = _stmts(ctx, node.finalbody, in_acc_if)
            if body_sk or handler_sk or fin_sk:
                out.append(("try", body_sk, catches, handler_sk, fin_sk))
        elif isinstance(node, ast.For):
            if node.orelse:
                _err(node, "for with an else clause")
            for t in (ctx.mentions_buffer(node.iter), ctx.mentions_source_read(node.iter) if ctx.source else False):
                if t:
                    _err(node, "queue / data source used in a loop header")
            rk = _range_kind(ctx, node.iter, node.target)
            saved = ctx.loop_var
            if rk in ("RStartEnd", "RTotalLen"):
                if not isinstance(node.target, ast.Name):
                    _err(node, "reading loop target is not a simple name")
                ctx.loop_var = node.target.id
            body_sk = _stmts(ctx, node.body, in_acc_if)
            ctx.loop_var = saved
            if body_sk or rk != "ROther":
                out.append(("for", rk, body_sk))
        elif isinstance(node, ast.While):
            if node.orelse:
                _err(node, "while with an else clause")
            t = node.test
            notdone = ctx.role == "consumer" and isinstance(t, ast.UnaryOp) and isinstance(t.op, ast.Not) \
                and isinstance(t.operand, ast.Name) and t.operand.id == ctx.done_var
            if ctx.mentions_buffer(t):
                _err(node, "queue used in a loop header")
            out.append(("while", bool(notdone), _stmts(ctx, node.body, in_acc_if)))
        elif isinstance(node, ast.If):
            if ctx.mentions_buffer(node.test) or (ctx.source and ctx.mentions_source_read(node.test)):
                _err(node, "queue / data source used in a condition")
            ck = _cond_kind(ctx, node.test)
            th = _stmts(ctx, node.body, in_acc_if or ck == "CAcc")
            el = _stmts(ctx, node.orelse, in_acc_if)
            if th or el:
                out.append(("if", ck, th, el))
        else:
            _err(node, f"statement kind {type(node).__name__} outside the recognised fragment")
    return out


def _total_len_is_len(cls):
    fn = _find_method(cls, "total_len")
    body = [n for n in fn.body if not (isinstance(n, ast.Expr) and isinstance(n.value, ast.Constant))]
    if len(body) != 1 or not isinstance(body[0], ast.Return):
        return False
    v = body[0].value
    return isinstance(v, ast.Call) and isinstance(v.func, ast.Name) and v.func.id == "len" and len(v.args) == 1 \
        and not v.keywords and _is_attr_chain(v.args[0], ["self", "labels"])


def extract(repo: Path) -> dict:
    """Parse the two source files under `repo`; returns the skeleton record as Python data.
    Raises SkelError (fail-closed) on anything outside the recognised fragment."""
    prov = ast.parse((repo / "sleap_nn/data/providers.py").read_text())
    pred = ast.parse((repo / "sleap_nn/inference/predictors.py").read_text())
    res = {}
    marker_none, frame_nonnone = [], []
    for role, cname in (("video", "VideoReader"), ("labels", "LabelsReader")):
        cls = _find_class(prov, cname)
        if not any(isinstance(b, ast.Name) and b.id == "Thread" for b in cls.bases):
            raise SkelError(f"{cname} is not a Thread subclass")
        fn = _find_method(cls, "run")
        try:
            ctx = _Ctx(fn, role)
            res[role] = _stmts(ctx, fn.body)
        except SkelError as e:
            raise SkelError(f"providers.py {cname}.run: {e}") from None
        marker_none += ctx.marker_keys_none
        frame_nonnone += ctx.frame_keys_nonnone
        if role == "labels":
            res["labels_total_len_is_len"] = _total_len_is_len(cls)
    pcls = _find_class(pred, "Predictor")
    fn = _find_method(pcls, "_predict_generator")
    # no subclass may override the consumer loop
    for n in pred.body:
        if isinstance(n, ast.ClassDef) and n.name != "Predictor" and \
                any(isinstance(m, ast.FunctionDef) and m.name == "_predict_generator" for m in n.body):
            raise SkelError(f"predictors.py: {n.name} overrides _predict_generator")
    try:
        ctx = _Ctx(fn, "consumer")
        res["consumer"] = _stmts(ctx, fn.body)
    except SkelError as e:
        raise SkelError(f"predictors.py Predictor._predict_generator: {e}") from None
    k = ctx.sentinel_key
    res["sentinel_key"] = k
    res["sentinel_test_matches"] = bool(
        k is not None and marker_none and frame_nonnone
        and all(k in s for s in marker_none) and all(k in s for s in frame_nonnone))
    return res


# -- Coq output -----------------------------------------------------------------

def _coq(term) -> str:
    tag = term[0]
    if tag == "atom":
        if term[1] == "ASetDone":
            return f"SkAtom (ASetDone {'true' if term[2] else 'false'})"
        return f"SkAtom {term[1]}"
    if tag == "try":
        return f"SkTry {_coq_list(term[1])} {'true' if term[2] else 'false'} {_coq_list(term[3])} {_coq_list(term[4])}"
    if tag == "for":
        return f"SkFor {term[1]} {_coq_list(term[2])}"
    if tag == "while":
        return f"{'SkWhileNotDone' if term[1] else 'SkWhileOther'} {_coq_list(term[2])}"
    if tag == "if":
        return f"SkIf {term[1]} {_coq_list(term[2])} {_coq_list(term[3])}"
    raise AssertionError(tag)


def _coq_list(ts) -> str:
    return "[" + "; ".join(_coq(t) for t in ts) + "]"


HEADER = "(* GENERATED on every run by translator/c13_skel2coq.py from {repo} — do not edit. *)\n"


def render(res: dict, repo: Path) -> str:
    b = lambda x: "true" if x else "false"
    return (HEADER.format(repo=repo) +
            "From Coq Require Import List.\nImport ListNotations.\nFrom SV Require Import C13.Stream.\n\n"
            "Definition generated : skeletons := mkSkeletons\n"
            f"  (* VideoReader.run *)\n  {_coq_list(res['video'])}\n"
            f"  (* LabelsReader.run *)\n  {_coq_list(res['labels'])}\n"
            f"  (* LabelsReader.total_len is len(self.labels) *) {b(res['labels_total_len_is_len'])}\n"
            f"  (* Predictor._predict_generator *)\n  {_coq_list(res['consumer'])}\n"
            f"  (* marker test key {res['sentinel_key']!r} is None in the marker and non-None in every frame *) "
            f"{b(res['sentinel_test_matches'])}.\n")


CHECK = (HEADER +
         "From SV Require Import C13.Stream Gen.C13_Skel.\n\n"
         "(* per-run obligation: the skeletons extracted from the source are the modelled ones *)\n"
         "Theorem c13_skeletons_match : skeletons_match generated.\n"
         "Proof. vm_compute. repeat split; reflexivity. Qed.\n"
         "Print Assumptions c13_skeletons_match.\n")


def generate(repo: Path, gen_dir: Path) -> dict:
    """Regenerate Gen/C13_Skel.v and Gen/C13_SkelCheck.v.  Returns
    {"ok": True, "skeletons": ..., "files": [...]} or {"ok": False, "error": "..."} (nothing usable written)."""
    gen_dir.mkdir(parents=True, exist_ok=True)
    skel, chk = gen_dir / "C13_Skel.v", gen_dir / "C13_SkelCheck.v"
    for f in (skel, chk, skel.with_suffix(".vo"), chk.with_suffix(".vo")):
        if f.exists():
            f.unlink()
    try:
        res = extract(repo)
    except (SkelError, SyntaxError, OSError) as e:
        return {"ok": False, "error": f"{type(e).__name__}: {e}"}
    skel.write_text(render(res, repo))
    chk.write_text(CHECK.format(repo=repo))
    return {"ok": True, "skeletons": res, "files": [str(skel), str(chk)]}


if __name__ == "__main__":
    import json
    import sys
    r = extract(Path(sys.argv[1] if len(sys.argv) > 1 else "/repo"))
    print(json.dumps(r, indent=1, default=list))
