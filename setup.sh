#!/bin/bash
# Build the Coq development from files on disk only (offline). Full .vo build.
set -e
HERE="$(cd "$(dirname "$0")" && pwd)"
cd "$HERE/coq"
timeout 600 coq_makefile -f _CoqProject -o Makefile
timeout 3000 make -k -j16 || echo "setup: some targets failed to build (each check rebuilds its own targets and reports)"
